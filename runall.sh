#!/bin/bash
# runs the checks of MANIFEST.json in the given tier; prints one line per check
# usage: runall.sh [quick|thorough] [ids...]
tier=${1:-quick}; shift
ids=${@:-C01 C02 C03 C04 C05 C06 C07 C08 C09 C10 C11 C12 C13 C14 C15 C16 C17 C18 C19 C20}
cd "$(dirname "$0")"
out=${RUNALL_OUT:-/tmp}
for id in $ids; do
  s=$(date +%s)
  ./check $id $tier > $out/runall_$id.out 2>&1; rc=$?
  e=$(date +%s)
  echo "$id rc=$rc $((e-s))s viol=$(grep -c '^VIOLATION' $out/runall_$id.out) known=$(grep -c '^KNOWN-FINDING' $out/runall_$id.out)"
done
