#!/bin/bash
# runs every check of MANIFEST.json in the given tier; prints one line per check
tier=${1:-quick}
cd "$(dirname "$0")"
for id in C01 C02 C03 C04 C05 C06 C07 C08 C09 C10 C11 C12 C13 C14 C15 C16 C17 C18 C19 C20; do
  s=$(date +%s)
  ./check $id $tier > /tmp/runall_$id.out 2>&1; rc=$?
  e=$(date +%s)
  echo "$id rc=$rc $((e-s))s viol=$(grep -c '^VIOLATION' /tmp/runall_$id.out) known=$(grep -c '^KNOWN-FINDING' /tmp/runall_$id.out)"
done
