#!/bin/bash
# Usage: seedtest.sh <Cxx> [check ids...]   (default: the property itself)
# Applies /tmp/mut/out/<id>/patch.diff to /repo, confirms the pinned suite passes and
# the demonstration fails, runs the checks, reverts, confirms the demonstration passes.
id=$1; shift
checks=${@:-$id}
src=/tmp/mut/out/$id
cd /repo || exit 2
git diff --quiet || { echo "/repo not clean"; exit 2; }
git apply "$src/patch.diff" || { echo "patch does not apply"; exit 2; }
echo "== suite with change"
/venv/bin/python -m pytest -q -p no:cacheprovider 2>&1 | grep -E "passed|failed" | tail -1
demo=$(ls $src/demo.* | head -1)
run_demo() { case "$demo" in *.py) (cd /repo && timeout 300 /venv/bin/python "$demo" >/tmp/seed_demo.out 2>&1);; *.sh) (cd /repo && timeout 600 bash "$demo" >/tmp/seed_demo.out 2>&1);; esac; echo $?; }
echo "== demo with change (expect non-zero): $(run_demo)"
for c in $checks; do
  echo "== check $c with change"
  (cd /verif && timeout 1500 ./check $c quick >/tmp/seed_check_$c.out 2>&1; echo "rc=$?"; grep -E "^VIOLATION|^KNOWN|MACHINERY" -A1 /tmp/seed_check_$c.out | head -4 | cut -c1-250)
done
git checkout -- . && git status --short | head -2
echo "== demo without change (expect 0): $(run_demo)"
