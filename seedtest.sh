#!/bin/bash
# Usage: seedtest.sh <dir with patch.diff and demo.*> <property id> [check ids...]
# Seed testing WITHOUT touching /repo: makes a scratch worktree of /repo's HEAD,
# applies the change there, confirms the pinned suite passes and the demonstration
# fails with it, runs the checks against that tree (VERIF_REPO), reverts, confirms
# the demonstration passes, removes the worktree.
src=$(realpath "$1"); id=$2; shift 2
checks=${@:-$id}
tree=$(mktemp -d /tmp/seedtree.XXXXXX); rmdir "$tree"
out=$(mktemp -d /tmp/seedout.XXXXXX)
git -C /repo worktree add -q --detach "$tree" HEAD || exit 2
trap 'git -C /repo worktree remove --force "$tree"; rm -rf "$out"' EXIT
cd "$tree" || exit 2
git apply "$src/patch.diff" || { echo "patch does not apply"; exit 2; }
echo "== suite with change"
/venv/bin/python -m pytest -q -p no:cacheprovider 2>&1 | grep -E "passed|failed" | tail -1
demo=$(ls $src/demo.* | head -1)
run_demo() { case "$demo" in *.py) (cd "$tree" && PYTHONPATH="$tree" timeout 300 /venv/bin/python "$demo" >$out/demo.out 2>&1);; *.sh) (cd "$tree" && PYTHONPATH="$tree" timeout 600 bash "$demo" >$out/demo.out 2>&1);; esac; echo $?; }
echo "== demo with change (expect non-zero): $(run_demo)"
for c in $checks; do
  echo "== check $c with change"
  (cd /verif && VERIF_REPO="$tree" VERIF_OUT="$out" timeout 1500 ./check $c quick >$out/check_$c.out 2>&1; echo "rc=$?"; grep -E "^VIOLATION|^KNOWN|MACHINERY" -A1 $out/check_$c.out | head -4 | cut -c1-250)
done
git apply -R "$src/patch.diff"
echo "== demo without change (expect 0): $(run_demo)"
