#!/bin/sh
# Offline setup: parse every specification module and check the tools.
cd "$(dirname "$0")" || exit 2
set -e
java -version 2>&1 | head -1
for m in spec/*.tla; do
    case "$m" in *_TTrace*) continue;; esac
    tla-sany "$m" > /tmp/sany.$$ 2>&1 || { cat /tmp/sany.$$; rm -f /tmp/sany.$$; echo "SANY failed on $m"; exit 2; }
done
rm -f /tmp/sany.$$
/venv/bin/python -c "import ply, renew, hypothesis, prophy, prophyc; print('python ok', prophy.__file__)"
echo "setup ok"
