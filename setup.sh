#!/bin/sh
# Offline setup: parse every specification module and check the tools.
cd "$(dirname "$0")" || exit 2
set -e
java -version 2>&1 | head -1
out=$(mktemp)
for m in spec/*.tla; do
    case "$m" in *_TTrace*) continue;; esac
    (cd spec && tla-sany "$(basename "$m")") > "$out" 2>&1 || { cat "$out"; rm -f "$out"; echo "SANY failed on $m"; exit 2; }
done
rm -f "$out"
/venv/bin/python -c "import ply, renew, hypothesis, prophy, prophyc; print('python ok', prophy.__file__)"
PYTHONPATH="$(pwd)" PYTHONDONTWRITEBYTECODE=1 /venv/bin/python -m vf.selftest || { echo "binding self-test failed"; exit 2; }
echo "setup ok"
