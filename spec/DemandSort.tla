----------------------------- MODULE DemandSort -----------------------------
(***************************************************************************)
(* Definition ordering of the sack front-end (C15, "isar (and sack)").     *)
(*                                                                         *)
(* A C++ header lists its definitions in an order the C++ language already *)
(* restricts: a type is defined before it is used by value (`src` is a     *)
(* linear extension of the dependency graph).  The front-end does not copy *)
(* that order: it walks the top-level declarations and builds a model node *)
(* for those it *sees* there (named structs and enums); every other        *)
(* definition (`hidden`: unions, classes, anything inside a namespace,     *)
(* anonymous structs named by a typedef) is built on demand, depth first,  *)
(* the moment a member of a node under construction names it.  A node is   *)
(* appended after its members have been resolved (post-order), and the set *)
(* `known` is what prevents a second copy.                                 *)
(*                                                                         *)
(* One action per step of prophyc/parsers/sack.py:                         *)
(*   TopVisit  - build_model's loop reaches the next top-level cursor      *)
(*               (add_struct / add_enum is called WITHOUT looking at       *)
(*               `known`: that no duplicate arises is a theorem about the  *)
(*               combination with C++'s define-before-use, checked here)   *)
(*   Resolve   - struct_member / union_member: get_type_name of the next   *)
(*               member; `dive_deeper` starts the construction of a type   *)
(*               that is not known yet                                     *)
(*   Emit      - tree.add_node at the end of add_struct/add_union/add_enum *)
(*                                                                         *)
(* Abstract requirement (the property): the output lists every definition  *)
(* that is visible or reachable from a visible one exactly once and after  *)
(* everything it depends on.  TLC checks it for EVERY graph on N nodes,    *)
(* EVERY linear extension and EVERY choice of hidden definitions, and      *)
(* dumps each finished behaviour for replay into prophyc --sack.           *)
(***************************************************************************)
EXTENDS Naturals, Sequences, FiniteSets, TLC, Json

CONSTANTS N

Node == 1..N

VARIABLES deps, src, hidden, out, known, stack, pos, phase
dvars == <<deps, src, hidden, out, known, stack, pos, phase>>

Perms == {s \in [1..N -> Node] : \A i, j \in 1..N : s[i] = s[j] => i = j}
IsDag(d) == \E r \in [Node -> 1..N] : \A x \in Node : \A y \in d[x] : r[y] < r[x]
DependencyOrdered(s, d) == \A p \in 1..Len(s) : d[s[p]] \subseteq {s[q] : q \in 1..(p - 1)}

SeqOfSet(S) == LET n == Cardinality(S) IN
    [i \in 1..n |-> CHOOSE x \in S : Cardinality({y \in S : y < x}) = i - 1]

\* members are written in ascending order of the type they use, rotated by the
\* owner's number (so that "first member first" is not always "smallest first")
Members(n, d) == LET s == SeqOfSet(d[n]) IN
    IF Len(s) = 0 THEN s ELSE [i \in 1..Len(s) |-> s[((i - 1 + n) % Len(s)) + 1]]

DInit ==
    /\ src \in Perms
    /\ deps \in [Node -> SUBSET Node]
    /\ DependencyOrdered(src, deps)        \* C++: defined before used (implies IsDag(deps): src is a ranking)
    /\ hidden \in SUBSET Node
    /\ out = <<>>
    /\ known = {}
    /\ stack = <<>>
    /\ pos = 1
    /\ phase = "run"

Top == stack[Len(stack)]
Pop == SubSeq(stack, 1, Len(stack) - 1)

TopVisit ==
    /\ phase = "run" /\ stack = <<>> /\ pos <= N
    /\ pos' = pos + 1
    /\ IF src[pos] \in hidden
       THEN UNCHANGED stack
       ELSE stack' = <<[n |-> src[pos], todo |-> Members(src[pos], deps)]>>
    /\ UNCHANGED <<deps, src, hidden, out, known, phase>>

Resolve ==
    /\ phase = "run" /\ stack # <<>> /\ Top.todo # <<>>
    /\ LET d == Head(Top.todo)
           rest == Pop \o <<[n |-> Top.n, todo |-> Tail(Top.todo)]>> IN
         stack' = IF d \in known THEN rest ELSE rest \o <<[n |-> d, todo |-> Members(d, deps)]>>
    /\ UNCHANGED <<deps, src, hidden, out, known, pos, phase>>

Emit ==
    /\ phase = "run" /\ stack # <<>> /\ Top.todo = <<>>
    /\ out' = Append(out, Top.n)
    /\ known' = known \cup {Top.n}
    /\ stack' = Pop
    /\ UNCHANGED <<deps, src, hidden, pos, phase>>

Finish ==
    /\ phase = "run" /\ stack = <<>> /\ pos = N + 1
    /\ phase' = "done"
    /\ UNCHANGED <<deps, src, hidden, out, known, stack, pos>>

DNext == TopVisit \/ Resolve \/ Emit \/ Finish
DSpec == DInit /\ [][DNext]_dvars /\ WF_dvars(DNext)

(* ---- abstract specification and properties ------------------------------ *)
RECURSIVE Reach(_)
Reach(S) == LET T == S \cup UNION {deps[x] : x \in S} IN IF T = S THEN S ELSE Reach(T)
Expected == Reach(Node \ hidden)

OutSet == {out[p] : p \in 1..Len(out)}
NoDuplicate == \A p, q \in 1..Len(out) : out[p] = out[q] => p = q
OrderedSoFar == DependencyOrdered(out, deps)
KnownIsOut == known = OutSet
\* the stack is a dependency chain: nothing under construction is known yet
StackFresh == \A i \in 1..Len(stack) : stack[i].n \notin known
ResultComplete == phase = "done" => OutSet = Expected
OnlyExpected == OutSet \subseteq Expected
DTermination == <>(phase = "done")

DDump == phase = "done" =>
    PrintT("DSORT " \o ToJson([deps |-> [x \in Node |-> SeqOfSet(deps[x])], src |-> src,
                               hidden |-> SeqOfSet(hidden), result |-> out]))
=============================================================================
