-------------------------------- MODULE Expr --------------------------------
(***************************************************************************)
(* Constant expressions (C14).                                             *)
(*                                                                         *)
(* AST:  Lit(v, base)  Name(i)  Neg(e)  Bin(op, l, r)                      *)
(* Eval: integer arithmetic; "/" is integer division and is only           *)
(* generated for non-negative dividend and positive divisor (as the        *)
(* property states).                                                       *)
(* Text: Full(e) parenthesises every operation; Min(e) uses the language's *)
(* precedence and left associativity                                       *)
(*        + -   <   * /   <   << >>   <   unary minus                      *)
(* and parenthesises exactly where that table requires it.  Both texts     *)
(* denote Eval(e) by definition of the language; every evaluator of the    *)
(* tool-chain is held to that integer.                                     *)
(***************************************************************************)
EXTENDS Integers, Sequences, TLC, Json

CONSTANTS Depth, Lits, NameVals   \* literal values, values of the earlier constants K1, K2, ...

Lit(v, b)     == [k |-> "lit", v |-> v, b |-> b, op |-> "", l |-> <<>>, r |-> <<>>]
Name(i)       == [k |-> "name", v |-> i, b |-> "", op |-> "", l |-> <<>>, r |-> <<>>]
Neg(e)        == [k |-> "neg", v |-> 0, b |-> "", op |-> "-", l |-> <<e>>, r |-> <<>>]
Bin(op, x, y) == [k |-> "bin", v |-> 0, b |-> "", op |-> op, l |-> <<x>>, r |-> <<y>>]

\* A literal beyond TLC's 32-bit integers: Big(a, low) denotes
\*     a * 2^40 + (IF low THEN 2^40 - 1 ELSE 0)
\* and is written in hexadecimal (a's digits followed by ten F's or ten 0's).
\* With a >= 2^13 these are the integers (up to 2^64 - 1) that binary floating
\* point no longer represents exactly.  They are never evaluated on their own:
\* only quotients of them are, by the exact rules of BigVal / Eval below.
Big(a, low)   == [k |-> "big", v |-> a, b |-> IF low THEN "F" ELSE "0", op |-> "", l |-> <<>>, r |-> <<>>]

Ops == {"+", "-", "*", "/", "<<", ">>"}
Bases == {"d", "x", "o"}

\* every expression with at most one operator over the full leaf set, and the
\* shapes that exercise precedence and associativity over a smaller leaf set
Leaves == {Lit(v, "d") : v \in Lits} \cup {Lit(12, "x"), Lit(255, "x"), Lit(5, "o"), Lit(12, "o")}
          \cup {Name(i) : i \in 1..Len(NameVals)}
Small == {Lit(1, "d"), Lit(2, "d"), Lit(5, "d"), Lit(12, "x"), Lit(3, "o"), Name(1)}
Tiny == {Lit(1, "d"), Lit(2, "d"), Name(1)}
D1 == Leaves \cup {Neg(e) : e \in Leaves} \cup {Bin(op, x, y) : op \in Ops, x \in Leaves, y \in Leaves}
D2 == {Bin(o1, Bin(o2, x, y), z) : o1 \in Ops, o2 \in Ops, x \in Small, y \in Small, z \in Small}
      \cup {Bin(o1, x, Bin(o2, y, z)) : o1 \in Ops, o2 \in Ops, x \in Small, y \in Small, z \in Small}
      \cup {Neg(Bin(o, x, y)) : o \in Ops, x \in Small, y \in Small}
      \cup {Bin(o, Neg(x), y) : o \in Ops, x \in Small, y \in Small}
      \cup {Bin(o, x, Neg(y)) : o \in Ops, x \in Small, y \in Small}
      \cup {Neg(Neg(x)) : x \in Small}
D3 == {Bin(o1, Bin(o2, x, y), Bin(o3, z, w)) : o1 \in Ops, o2 \in Ops, o3 \in Ops,
                                               x \in Tiny, y \in Tiny, z \in Tiny, w \in Tiny}
\* quotients of big numbers: numerators with and without low bits, sums,
\* differences and multiples of them; denominators are exact multiples of 2^40
BigAs == {16777215, 1048575, 65535, 8193}
BigBs == {1, 3, 16, 255, 1048576}
BigNum == {Big(a, lo) : a \in BigAs, lo \in BOOLEAN}
          \cup {Bin("-", Big(a, TRUE), Big(c, lo)) : a \in BigAs, c \in {1, 5}, lo \in BOOLEAN}
          \cup {Bin("+", Big(a, FALSE), Big(c, TRUE)) : a \in BigAs, c \in {1, 5}}
          \cup {Bin("*", Big(a, FALSE), Lit(3, "d")) : a \in BigAs}
DBig == {Bin("/", x, Big(b, FALSE)) : x \in BigNum, b \in BigBs}
        \cup {Bin(o, Bin("/", x, Big(b, FALSE)), y) : o \in {"+", "-"}, x \in {Big(a, TRUE) : a \in BigAs}, b \in {16, 1048576},
                                                      y \in {Lit(1, "d"), Name(1)}}
\* isar's second operator call: bitMaskOr(a, b), expanded to ((a) | (b)) - operands with bits in common, disjoint
\* masks built with shiftLeft, nesting, and a use inside a sum.  There is no "|" in the prophy language: these
\* expressions have an isar text only.
OrLeaves == {Lit(1, "d"), Lit(2, "d"), Lit(3, "d"), Lit(6, "d"), Lit(12, "x"), Lit(255, "x"), Name(1), Name(2)}
DOr == {Bin("|", x, y) : x \in OrLeaves, y \in OrLeaves}
       \cup {Bin("|", Bin("<<", Lit(1, "d"), sh), y) : sh \in {Lit(1, "d"), Lit(2, "d"), Lit(4, "d")}, y \in OrLeaves}
       \cup {Bin("|", Bin("|", x, y), z) : x \in {Lit(1, "d"), Lit(6, "d")}, y \in {Lit(3, "d"), Name(2)}, z \in {Lit(12, "x"), Lit(5, "d")}}
       \cup {Bin("+", Bin("|", x, y), Lit(1, "d")) : x \in {Lit(3, "d"), Name(1)}, y \in {Lit(6, "d"), Lit(5, "d")}}
AST(d) == DBig \cup DOr \cup (IF d = 1 THEN D1 ELSE IF d = 2 THEN D1 \cup D2 ELSE D1 \cup D2 \cup D3)

Pow2(n) == CASE n = 0 -> 1 [] n = 1 -> 2 [] n = 2 -> 4 [] n = 3 -> 8 [] n = 4 -> 16 [] n = 5 -> 32 [] n = 6 -> 64

\* is e one of the big-valued numerators / denominators?
RECURSIVE IsBig(_)
IsBig(e) == e.k = "big" \/ (e.k = "bin" /\ e.op \in {"+", "-", "*"} /\ (IsBig(e.l[1]) \/ IsBig(e.r[1])))

\* <<hi, low>> with value hi * 2^40 + (IF low THEN 2^40 - 1 ELSE 0); defined
\* only for the shapes in which the low bits add or cancel without carry
RECURSIVE BigVal(_)
BigVal(e) ==
    CASE e.k = "big" -> <<e.v, e.b = "F">>
      [] e.op = "+" -> <<BigVal(e.l[1])[1] + BigVal(e.r[1])[1], BigVal(e.l[1])[2] \/ BigVal(e.r[1])[2]>>
      [] e.op = "-" -> <<BigVal(e.l[1])[1] - BigVal(e.r[1])[1], BigVal(e.l[1])[2] /\ ~BigVal(e.r[1])[2]>>
      [] e.op = "*" -> <<BigVal(e.l[1])[1] * e.r[1].v, FALSE>>
RECURSIVE BigOK(_)
BigOK(e) ==
    CASE e.k = "big" -> e.v >= 1
      [] e.op = "+" -> BigOK(e.l[1]) /\ BigOK(e.r[1]) /\ ~(BigVal(e.l[1])[2] /\ BigVal(e.r[1])[2])
      [] e.op = "-" -> BigOK(e.l[1]) /\ BigOK(e.r[1]) /\ (BigVal(e.r[1])[2] => BigVal(e.l[1])[2])
                       /\ BigVal(e.l[1])[1] >= BigVal(e.r[1])[1]
      [] e.op = "*" -> BigOK(e.l[1]) /\ e.r[1].k = "lit" /\ ~BigVal(e.l[1])[2]
      [] OTHER -> FALSE

\* bitwise or of two naturals
RECURSIVE BitOr(_, _)
BitOr(a, b) == IF a = 0 THEN b ELSE IF b = 0 THEN a
               ELSE (IF a % 2 = 1 \/ b % 2 = 1 THEN 1 ELSE 0) + 2 * BitOr(a \div 2, b \div 2)

RECURSIVE Eval(_)
Eval(e) ==
    CASE e.k = "lit" -> e.v
      \* (a * 2^40 + r) / (b * 2^40) = a \div b for 0 <= r < 2^40: the remainder
      \* (a % b) * 2^40 + r stays below b * 2^40
      [] e.k = "bin" /\ e.op = "/" /\ IsBig(e.l[1]) -> BigVal(e.l[1])[1] \div BigVal(e.r[1])[1]
      [] e.k = "name" -> NameVals[e.v]
      [] e.k = "neg" -> 0 - Eval(e.l[1])
      [] e.op = "+" -> Eval(e.l[1]) + Eval(e.r[1])
      [] e.op = "-" -> Eval(e.l[1]) - Eval(e.r[1])
      [] e.op = "*" -> Eval(e.l[1]) * Eval(e.r[1])
      [] e.op = "/" -> Eval(e.l[1]) \div Eval(e.r[1])
      [] e.op = "<<" -> Eval(e.l[1]) * Pow2(Eval(e.r[1]))
      [] e.op = ">>" -> Eval(e.l[1]) \div Pow2(Eval(e.r[1]))     \* floor, also for negatives
      [] e.op = "|" -> BitOr(Eval(e.l[1]), Eval(e.r[1]))

\* well-formed: the preconditions of "/" and of the shifts hold everywhere,
\* and every intermediate value stays small
RECURSIVE WellFormed(_)
WellFormed(e) ==
    CASE e.k \in {"lit", "name"} -> TRUE
      [] e.k = "neg" -> WellFormed(e.l[1])
      [] e.k = "bin" /\ e.op = "/" /\ IsBig(e.l[1]) ->
            BigOK(e.l[1]) /\ e.r[1].k = "big" /\ e.r[1].b = "0" /\ e.r[1].v >= 1
      [] OTHER ->
            /\ WellFormed(e.l[1]) /\ WellFormed(e.r[1])
            /\ (e.op = "/" => Eval(e.l[1]) >= 0 /\ Eval(e.r[1]) > 0)
            /\ (e.op \in {"<<", ">>"} => Eval(e.r[1]) \in 0..6)      \* the shifted value may be negative (>> floors)
            /\ (e.op = "|" => Eval(e.l[1]) >= 0 /\ Eval(e.r[1]) >= 0)
            /\ Eval(e.l[1]) \in -100000..100000 /\ Eval(e.r[1]) \in -100000..100000

(* ---- text ------------------------------------------------------------------ *)
HexDigits == <<"0", "1", "2", "3", "4", "5", "6", "7", "8", "9", "A", "B", "C", "D", "E", "F">>
RECURSIVE InBase(_, _)
InBase(n, b) == IF n < b THEN HexDigits[n + 1] ELSE InBase(n \div b, b) \o HexDigits[(n % b) + 1]
LitText(e) ==
    CASE e.k = "big" -> "0x" \o InBase(e.v, 16) \o (IF e.b = "F" THEN "FFFFFFFFFF" ELSE "0000000000")
      [] e.b = "d" -> ToString(e.v)
      [] e.b = "x" -> "0x" \o InBase(e.v, 16)
      [] e.b = "o" -> IF e.v = 0 THEN "0" ELSE "0" \o InBase(e.v, 8)

Prec(op) == CASE op \in {"+", "-"} -> 1 [] op \in {"*", "/"} -> 2 [] op \in {"<<", ">>"} -> 3
PrecOf(e) == IF e.k = "bin" THEN Prec(e.op) ELSE IF e.k = "neg" THEN 4 ELSE 5

RECURSIVE Full(_), MinSp(_, _)
Full(e) ==
    CASE e.k \in {"lit", "big"} -> LitText(e)
      [] e.k = "name" -> "K" \o ToString(e.v)
      [] e.k = "neg" -> "(-" \o Full(e.l[1]) \o ")"
      [] OTHER -> "(" \o Full(e.l[1]) \o " " \o e.op \o " " \o Full(e.r[1]) \o ")"

Paren(s) == "(" \o s \o ")"
MinSp(e, sp) ==
    CASE e.k \in {"lit", "big"} -> LitText(e)
      [] e.k = "name" -> "K" \o ToString(e.v)
      [] e.k = "neg" -> "-" \o (IF PrecOf(e.l[1]) < 4 THEN Paren(MinSp(e.l[1], sp)) ELSE MinSp(e.l[1], sp))
      [] OTHER ->
            \* left operand: parenthesise if it binds weaker; right operand:
            \* parenthesise if it does not bind stronger (left associativity)
            (IF PrecOf(e.l[1]) < Prec(e.op) THEN Paren(MinSp(e.l[1], sp)) ELSE MinSp(e.l[1], sp))
            \o sp \o e.op \o sp \o
            (IF PrecOf(e.r[1]) <= Prec(e.op) THEN Paren(MinSp(e.r[1], sp)) ELSE MinSp(e.r[1], sp))

\* the minimal text with blanks around binary operators, and without any blank (A-1, 1<<K1*2)
Min(e) == MinSp(e, " ")
MinTight(e) == MinSp(e, "")

\* isar spelling: "<<" written as the operator call shiftLeft(a, b) (which the
\* isar front-end expands to ((a) << (b))), everything else fully parenthesised
RECURSIVE Isar(_), HasShl(_), HasOr(_)
Isar(e) ==
    CASE e.k \in {"lit", "big"} -> LitText(e)
      [] e.k = "name" -> "K" \o ToString(e.v)
      [] e.k = "neg" -> "(-" \o Isar(e.l[1]) \o ")"
      [] e.op = "<<" -> "shiftLeft(" \o Isar(e.l[1]) \o ", " \o Isar(e.r[1]) \o ")"
      [] e.op = "|" -> "bitMaskOr(" \o Isar(e.l[1]) \o ", " \o Isar(e.r[1]) \o ")"
      [] OTHER -> "(" \o Isar(e.l[1]) \o " " \o e.op \o " " \o Isar(e.r[1]) \o ")"
HasShl(e) ==
    CASE e.k \in {"lit", "big", "name"} -> FALSE
      [] e.k = "neg" -> HasShl(e.l[1])
      [] OTHER -> e.op = "<<" \/ HasShl(e.l[1]) \/ HasShl(e.r[1])

HasOr(e) ==
    CASE e.k \in {"lit", "big", "name"} -> FALSE
      [] e.k = "neg" -> HasOr(e.l[1])
      [] OTHER -> e.op = "|" \/ HasOr(e.l[1]) \/ HasOr(e.r[1])

NV == <<3, 10>>
NV2 == <<4, 7>>     \* a second binding of the same names: another file compiled in the same run
VARIABLE ast
EInit == ast \in {e \in AST(Depth) : WellFormed(e)}
ESpec == EInit /\ [][UNCHANGED ast]_ast

\* the value is an integer in the supported range (no overflow in the model)
ValueSmall == Eval(ast) \in -100000000..100000000

\* (an expression with "|" has no prophy-language text: min, full and tight are empty)
EDump == PrintT("EXPR " \o ToJson([min |-> IF HasOr(ast) THEN "" ELSE Min(ast), full |-> IF HasOr(ast) THEN "" ELSE Full(ast),
                                    value |-> Eval(ast),
                                    isar |-> IF HasShl(ast) \/ HasOr(ast) THEN Isar(ast) ELSE "",
                                    tight |-> IF HasOr(ast) THEN "" ELSE MinTight(ast), names |-> NameVals]))
=============================================================================
