------------------------------ MODULE FileProc ------------------------------
(***************************************************************************)
(* prophyc's file processor (C16 C20): include resolution, the include-    *)
(* directory stack, the per-run file cache with its "in progress" marker.  *)
(*                                                                         *)
(* A CONFIGURATION is chosen first (initial predicate): where the two      *)
(* includable files A and B live, the -I list, who includes what (also     *)
(* twice, diamond-shaped, a missing file, cyclic and self includes) and    *)
(* the main files in command-line order.  Then the machine processes the   *)
(* main files exactly like file_processor.py does, with an explicit call   *)
(* stack.                                                                  *)
(*                                                                         *)
(* Declarative meaning of an include (the property's reading of            *)
(* docs/schema.rst): `#include "x"` in file g denotes the file named x in  *)
(* the directory of g or, failing that, in the first -I directory that has *)
(* one - independent of who included g and of the command-line order.      *)
(***************************************************************************)
EXTENDS Naturals, Sequences, FiniteSets, TLC, Json

\* files: "M" main (directory "d0"), "A", "B" and "A2" - a second, different
\* file that is also NAMED "A" and lives in another directory (or nowhere);
\* the leaf name "X" never exists
Files == {"M", "A", "B", "A2"}
Dirs == {"d0", "d1", "d2"}
Leaf(f) == IF f = "A2" THEN "A" ELSE f

VARIABLES
    dirOf,      \* directory of A and B
    idirs,      \* the -I list
    incs,       \* file -> sequence of included leaf names
    mains,      \* main files in command-line order
    phase,      \* "config" | "run" | "done"
    \* ---- machine state
    dirs,       \* the include-directory stack (head = searched first)
    cache,      \* file -> "absent" | "inprogress" | "done"
    reads,      \* file -> how often its content was read
    stack,      \* call stack: [f, pc, saved]  (saved = dirs[0] to restore)
    todo,       \* main files still to process
    errors,     \* diagnostics raised so far: <<kind, file, leaf>>
    res         \* file -> sequence of resolved includes ("?" = none)

fvars == <<dirOf, idirs, incs, mains, phase, dirs, cache, reads, stack, todo, errors, res>>

DirOfFile(f) == IF f = "M" THEN "d0" ELSE dirOf[f]
FileIn(d, leaf) == {f \in Files : Leaf(f) = leaf /\ DirOfFile(f) = d}
Exists(d, leaf) == FileIn(d, leaf) # {}

\* declarative resolution: the file of that name in the first directory that has one
FirstExisting(ds, leaf) ==
    IF \E p \in 1..Len(ds) : Exists(ds[p], leaf)
    THEN LET p == CHOOSE p \in 1..Len(ds) : Exists(ds[p], leaf) /\ \A q \in 1..(p - 1) : ~Exists(ds[q], leaf)
         IN CHOOSE f \in FileIn(ds[p], leaf) : TRUE
    ELSE "?"
Resolve(g, leaf) == FirstExisting(<<DirOfFile(g)>> \o idirs, leaf)

IncChoicesM == {<<"A">>, <<"B">>, <<"A", "B">>, <<"B", "A">>, <<"A", "A">>, <<"X">>, <<"A", "X">>}
IncChoicesB == {<<>>, <<"A">>, <<"M">>, <<"B">>}
IncChoicesA == {<<>>, <<"B">>}

FInit ==
    /\ dirOf \in {d \in [{"A", "B", "A2"} -> Dirs \cup {"none"}] :
                    d["A"] # "none" /\ d["B"] # "none" /\ d["A2"] # d["A"]}
    /\ idirs \in {<<>>, <<"d1">>, <<"d1", "d2">>, <<"d2", "d1">>}
    /\ incs \in {[f \in Files |-> IF f = "M" THEN m ELSE IF f = "B" THEN b ELSE IF f = "A" THEN a ELSE <<>>] :
                    m \in IncChoicesM, b \in IncChoicesB, a \in IncChoicesA}
    /\ mains \in {<<"M">>, <<"M", "B", "A">>, <<"A", "B", "M">>, <<"B", "A", "M">>}
    /\ phase = "run"
    /\ dirs = idirs
    /\ cache = [f \in Files |-> "absent"]
    /\ reads = [f \in Files |-> 0]
    /\ stack = <<>>
    /\ todo = mains
    /\ errors = <<>>
    /\ res = [f \in Files |-> <<>>]

Frame(f, pc, saved) == [f |-> f, pc |-> pc, saved |-> saved]
Top == Head(stack)

\* process_main(path): push the file's directory, then _process_file
StartMain ==
    /\ phase = "run" /\ stack = <<>> /\ todo # <<>>
    /\ LET f == Head(todo) IN
         IF DirOfFile(f) \in Dirs
         THEN /\ dirs' = <<DirOfFile(f)>> \o dirs
              /\ IF cache[f] = "done"
                 THEN /\ stack' = << Frame(f, Len(incs[f]) + 1, "main") >>      \* cached: nothing read again
                      /\ UNCHANGED <<cache, reads>>
                 ELSE /\ cache' = [cache EXCEPT ![f] = "inprogress"]
                      /\ reads' = [reads EXCEPT ![f] = @ + 1]
                      /\ stack' = << Frame(f, 1, "main") >>
              /\ UNCHANGED errors
         ELSE /\ errors' = Append(errors, <<"missing-main", f, f>>)
              /\ UNCHANGED <<dirs, cache, reads, stack>>
    /\ todo' = Tail(todo)
    /\ UNCHANGED <<dirOf, idirs, incs, mains, phase, res>>

\* the parser of the file on top meets its next #include: process_leaf
Include ==
    /\ phase = "run" /\ stack # <<>> /\ Top.pc <= Len(incs[Top.f])
    /\ LET g == Top.f
           leaf == incs[g][Top.pc]
           found == FirstExisting(dirs, leaf)
           adv == [Top EXCEPT !.pc = @ + 1]
       IN
       IF found = "?"
       THEN \* FileNotFoundError: recorded by the parser, parsing goes on
            /\ errors' = Append(errors, <<"missing", g, leaf>>)
            /\ res' = [res EXCEPT ![g] = Append(@, "?")]
            /\ stack' = <<adv>> \o Tail(stack)
            /\ UNCHANGED <<dirs, cache, reads>>
       ELSE IF cache[found] = "inprogress"
       THEN \* CyclicIncludeError
            /\ errors' = Append(errors, <<"cyclic", g, leaf>>)
            /\ res' = [res EXCEPT ![g] = Append(@, found)]
            /\ stack' = <<adv>> \o Tail(stack)
            /\ UNCHANGED <<dirs, cache, reads>>
       ELSE IF cache[found] = "done"
       THEN /\ res' = [res EXCEPT ![g] = Append(@, found)]
            /\ stack' = <<adv>> \o Tail(stack)
            /\ UNCHANGED <<dirs, cache, reads, errors>>
       ELSE \* swap_dir + _process_file
            /\ res' = [res EXCEPT ![g] = Append(@, found)]
            /\ cache' = [cache EXCEPT ![found] = "inprogress"]
            /\ reads' = [reads EXCEPT ![found] = @ + 1]
            /\ stack' = << Frame(found, 1, dirs[1]) >> \o <<adv>> \o Tail(stack)
            /\ dirs' = <<DirOfFile(found)>> \o Tail(dirs)
            /\ UNCHANGED errors
    /\ UNCHANGED <<dirOf, idirs, incs, mains, phase, todo>>

\* the file on top is parsed completely: return, restore the directory
Return ==
    /\ phase = "run" /\ stack # <<>> /\ Top.pc > Len(incs[Top.f])
    /\ cache' = [cache EXCEPT ![Top.f] = "done"]
    /\ dirs' = IF Top.saved = "main" THEN Tail(dirs) ELSE <<Top.saved>> \o Tail(dirs)
    /\ stack' = Tail(stack)
    /\ UNCHANGED <<dirOf, idirs, incs, mains, phase, reads, todo, errors, res>>

Finish ==
    /\ phase = "run" /\ stack = <<>> /\ todo = <<>>
    /\ phase' = "done"
    /\ UNCHANGED <<dirOf, idirs, incs, mains, dirs, cache, reads, stack, todo, errors, res>>

FNext == StartMain \/ Include \/ Return \/ Finish
FSpec == FInit /\ [][FNext]_fvars /\ WF_fvars(FNext)

(* ---- properties ------------------------------------------------------------- *)
\* "each file processed once"
ReadOnce == \A f \in Files : reads[f] <= 1
\* while a file is being processed the search list is its own directory + the -I list
DirsDiscipline == stack # <<>> => dirs = <<DirOfFile(Top.f)>> \o idirs
\* between main files the list is the -I list again (also after errors)
DirsRestored == stack = <<>> => dirs = idirs
\* the machine resolves every include exactly as the declarative meaning says -
\* whatever the include chain and the command-line order
ResolutionDeclarative ==
    \A g \in Files : \A p \in 1..Len(res[g]) : res[g][p] = Resolve(g, incs[g][p])
\* missing and cyclic includes are reported, never silently dropped
Reachable(f) == TRUE
MissingReported ==
    phase = "done" =>
        \A g \in Files : \A p \in 1..Len(res[g]) :
            res[g][p] = "?" => \E e \in 1..Len(errors) : errors[e] = <<"missing", g, incs[g][p]>>
Terminates == <>(phase = "done")

FDump == phase = "done" =>
    PrintT("FCFG " \o ToJson([dirOf |-> dirOf, idirs |-> idirs, incs |-> incs, mains |-> mains,
                              reads |-> reads, errors |-> errors, res |-> res]))
=============================================================================
