----------------------------- MODULE Frontends -----------------------------
(***************************************************************************)
(* Front-end agreement (C17): an isar description, completed by a patch    *)
(* script, denotes the same abstract schema - hence the same wire layout - *)
(* as the prophy text of that schema.                                      *)
(*                                                                         *)
(*  IsarMember : what the XML says about one <member>                      *)
(*  FromIsar   : the named abstract members it denotes (docs/              *)
(*               other_schemas.rst: isVariableSize -> counted array;       *)
(*               size -> fixed array; in a <message> a variable array is   *)
(*               dynamic, in a <struct> with a size it is limited)         *)
(*  Patch      : the documented patch rules on named abstract members;     *)
(*               outcome "ignored" for an absent message, "failed" when a  *)
(*               rule cannot be applied                                    *)
(*  Target     : the Schema.tla struct that results (sizers resolved to    *)
(*               member indices), whose layout Layout.tla defines.         *)
(***************************************************************************)
EXTENDS Layout, TLC, Json

\* named abstract member: form as in Schema, sizer by NAME
NM(nm, f, t, n, szr) == [nm |-> nm, f |-> f, t |-> t, n |-> n, szr |-> szr]

\* isar member: dim in "none" "size" "size2" "var" "varsize" "varsize2" "varnamed" "at" "this"
IM(nm, t, opt, dim, n, aux) == [nm |-> nm, t |-> t, opt |-> opt, dim |-> dim, n |-> n, aux |-> aux]

\* fixed environment the members may refer to: 1 = enum, 2 = struct {u16; u8}
BaseEnv == << EnumDef(<<1, 2>>), StructDef(<<Plain(Int(2)), Plain(Int(1))>>) >>
ElemTypes == {Int(1), Int(4), SInt(2), Ref(1), Ref(2)}

\* "numOf" + the member's name with its first letter in upper case (members are called f<k>)
NumOfName(nm) == "numOfF" \o SubSeq(nm, 2, Len(nm))

FromIsarDim(m, inMessage) ==
    CASE m.dim = "none"     -> << NM(m.nm, IF m.opt THEN "opt" ELSE "plain", m.t, 0, "") >>
      [] m.dim = "size"     -> << NM(m.nm, "fixed", m.t, m.n, "") >>
      [] m.dim = "size2"    -> << NM(m.nm, "fixed", m.t, m.n * m.aux, "") >>
      \* variable size: its own u32 counter <name>_len in front
      [] m.dim = "var"      -> << NM(m.nm \o "_len", "plain", Int(4), 0, ""), NM(m.nm, "ext", m.t, 0, m.nm \o "_len") >>
      [] m.dim = "varsize"  -> << NM(m.nm \o "_len", "plain", Int(4), 0, ""),
                                  IF inMessage THEN NM(m.nm, "ext", m.t, 0, m.nm \o "_len")
                                  ELSE NM(m.nm, "limext", m.t, m.n, m.nm \o "_len") >>
      [] m.dim = "varsize2" -> << NM(m.nm \o "_len", "plain", Int(4), 0, ""),
                                  IF inMessage THEN NM(m.nm, "ext", m.t, 0, m.nm \o "_len")
                                  ELSE NM(m.nm, "limext", m.t, m.n * m.aux, m.nm \o "_len") >>
      \* named and typed counter (u8)
      [] m.dim = "varnamed" -> << NM("cnt_" \o m.nm, "plain", Int(IF m.aux = 0 THEN 1 ELSE m.aux), 0, ""),
                                  NM(m.nm, "ext", m.t, 0, "cnt_" \o m.nm) >>
      \* sized by an existing field: variableSizeFieldName="@f1"
      [] m.dim = "at"       -> << NM(m.nm, "ext", m.t, 0, "f1") >>
      \* size="THIS_IS_VARIABLE_SIZE_ARRAY": sized by the existing field numOf<Name>
      [] m.dim = "this"     -> << NM(m.nm, "ext", m.t, 0, NumOfName(m.nm)) >>

\* optional="true" on a member WITH a dimension does not make an optional: it
\* puts an explicit u32 enabler has_<name> in front of the array
FromIsar(m, inMessage) ==
    IF m.opt /\ m.dim # "none"
    THEN << NM("has_" \o m.nm, "plain", Int(4), 0, "") >> \o FromIsarDim(m, inMessage)
    ELSE FromIsarDim(m, inMessage)

RECURSIVE Flatten(_, _)
Flatten(ims, inMessage) ==
    IF ims = <<>> THEN <<>> ELSE FromIsar(Head(ims), inMessage) \o Flatten(Tail(ims), inMessage)

(* ---- patch rules ----------------------------------------------------------- *)
IndexOf(ms, nm) == IF \E j \in 1..Len(ms) : ms[j].nm = nm THEN CHOOSE j \in 1..Len(ms) : ms[j].nm = nm ELSE 0
Res(out, ms) == [out |-> out, ms |-> ms]

ApplyRule(ms, r) ==
    LET j == IndexOf(ms, r.a) IN
    CASE r.op = "type" ->
            IF j = 0 THEN Res("failed", ms) ELSE Res("ok", [ms EXCEPT ![j].t = r.t])
      [] r.op = "insert" ->      \* r.n = index, r.a = new name
            LET p == IF r.n > Len(ms) THEN Len(ms) ELSE r.n IN
            Res("ok", SubSeq(ms, 1, p) \o << NM(r.a, "plain", r.t, 0, "") >> \o SubSeq(ms, p + 1, Len(ms)))
      [] r.op = "remove" ->
            IF j = 0 THEN Res("failed", ms) ELSE Res("ok", SubSeq(ms, 1, j - 1) \o SubSeq(ms, j + 1, Len(ms)))
      [] r.op = "dynamic" ->
            IF j = 0 THEN Res("failed", ms) ELSE Res("ok", [ms EXCEPT ![j].f = "ext", ![j].n = 0, ![j].szr = r.b])
      [] r.op = "greedy" ->
            IF j = 0 THEN Res("failed", ms) ELSE Res("ok", [ms EXCEPT ![j].f = "greedy", ![j].n = 0, ![j].szr = ""])
      [] r.op = "static" ->
            IF j = 0 THEN Res("failed", ms) ELSE Res("ok", [ms EXCEPT ![j].f = "fixed", ![j].n = r.n, ![j].szr = ""])
      [] r.op = "limited" ->     \* field must be an array with a size; sizer must precede it
            IF j = 0 \/ IndexOf(SubSeq(ms, 1, IF j = 0 THEN 0 ELSE j - 1), r.b) = 0 THEN Res("failed", ms)
            ELSE Res("ok", [ms EXCEPT ![j].f = "limext", ![j].szr = r.b])
      [] r.op = "rename" ->
            IF j = 0 THEN Res("failed", ms)
            ELSE Res("ok", [q \in 1..Len(ms) |-> [ms[q] EXCEPT !.nm = IF q = j THEN r.b ELSE @,
                                                           !.szr = IF @ = r.a THEN r.b ELSE @]])
      [] r.op = "absent" -> Res("ignored", ms)       \* rule for a message that does not exist
      \* "<NODE> rename <NEW>": the struct type of the base environment gets another name; every member
      \* that refers to it follows, so nothing changes at this level (types are referred to by index)
      [] r.op = "rename_type" -> Res("ok", ms)

(* ---- to Schema members (sizers resolved by name) ----------------------------- *)
Resolved(ms) ==
    [j \in 1..Len(ms) |->
        LET m == ms[j] IN
        IF m.f \in {"ext", "limext"}
        THEN Mem(IF m.f = "ext" THEN "ext" ELSE "limx", m.t, IF m.f = "ext" THEN 0 ELSE m.n, IndexOf(ms, m.szr))
        ELSE Mem(m.f, m.t, m.n, 0)]

(* ---- the explored space ----------------------------------------------------- *)
VARIABLES ims, inMessage, script, result, outcome
fvars == <<ims, inMessage, script, result, outcome>>

Forms(nm, t) ==
    {IM(nm, t, FALSE, "none", 0, 0), IM(nm, t, TRUE, "none", 0, 0), IM(nm, t, FALSE, "size", 3, 0),
     IM(nm, t, FALSE, "size2", 2, 2), IM(nm, t, FALSE, "var", 0, 0), IM(nm, t, FALSE, "varsize", 2, 0),
     IM(nm, t, FALSE, "varnamed", 0, 0), IM(nm, t, FALSE, "varnamed", 0, 2), IM(nm, t, FALSE, "varnamed", 0, 8),
     IM(nm, t, FALSE, "varsize2", 3, 2),
     IM(nm, t, TRUE, "size", 2, 0), IM(nm, t, TRUE, "var", 0, 0)}

\* arrays sized by an existing member (the first member is that integer)
SizedByExisting ==
    {<< IM("f1", t1, FALSE, "none", 0, 0), IM("f2", t, FALSE, "at", 0, 0) >> : t1 \in {Int(1), Int(4)}, t \in ElemTypes}
    \cup {<< IM(NumOfName("f2"), t1, FALSE, "none", 0, 0), IM("f2", t, FALSE, "this", 0, 0) >> : t1 \in {Int(1), Int(4)}, t \in ElemTypes}
    \cup {<< IM("f1", Int(2), FALSE, "none", 0, 0), IM("f2", t, FALSE, "at", 0, 0), IM("f3", t, FALSE, "at", 0, 0) >> : t \in {Int(1), Ref(2)}}

Scripts ==
    {<<>>, << [op |-> "absent", a |-> "", b |-> "", c |-> "", t |-> Int(1), n |-> 0] >>}
    \cup {<< [op |-> "type", a |-> "f1", b |-> "", c |-> "", t |-> Int(8), n |-> 0] >>}
    \cup {<< [op |-> "type", a |-> "nosuch", b |-> "", c |-> "", t |-> Int(8), n |-> 0] >>}
    \cup {<< [op |-> "insert", a |-> "extra", b |-> "", c |-> "", t |-> Int(2), n |-> p] >> : p \in {0, 1, 999}}
    \cup {<< [op |-> "remove", a |-> "f1", b |-> "", c |-> "", t |-> Int(1), n |-> 0] >>}
    \cup {<< [op |-> "rename", a |-> "f2", b |-> "g2", c |-> "", t |-> Int(1), n |-> 0] >>}
    \cup {<< [op |-> "rename_type", a |-> "T2", b |-> "R2", c |-> "", t |-> Int(1), n |-> 0] >>}
    \* several nodes renamed by one patch, a new name being another node's original name (a chain and a swap):
    \* each rule applies to the node that carries the name in the input, references follow their own node
    \cup {<< [op |-> "rename_type", a |-> "T1", b |-> "T2", c |-> "", t |-> Int(1), n |-> 0],
             [op |-> "rename_type", a |-> "T2", b |-> x, c |-> "", t |-> Int(1), n |-> 0] >> : x \in {"R2", "T1"}}
    \* renaming a member that sizes arrays: the arrays follow (f1 in the "@f1" forms, the implicit counters)
    \cup {<< [op |-> "rename", a |-> x, b |-> "cnt", c |-> "", t |-> Int(1), n |-> 0] >> : x \in {"f1", "f2_len", "f1_len"}}
    \cup {<< [op |-> "static", a |-> "f2", b |-> "", c |-> "", t |-> Int(1), n |-> 4] >>}
    \cup {<< [op |-> "greedy", a |-> "f2", b |-> "", c |-> "", t |-> Int(1), n |-> 0] >>}
    \cup {<< [op |-> "dynamic", a |-> "f2", b |-> "f1", c |-> "", t |-> Int(1), n |-> 0] >>}
    \cup {<< [op |-> "limited", a |-> "f2", b |-> "f1", c |-> "", t |-> Int(1), n |-> 0] >>}
    \cup {<< [op |-> "insert", a |-> "extra", b |-> "", c |-> "", t |-> Int(4), n |-> 0],
             [op |-> "dynamic", a |-> "f2", b |-> "extra", c |-> "", t |-> Int(1), n |-> 0] >>}

RECURSIVE RunScript(_, _)
RunScript(ms, sc) ==
    IF sc = <<>> THEN Res("ok", ms)
    ELSE LET r == ApplyRule(ms, Head(sc)) IN
         IF r.out = "failed" THEN r ELSE RunScript(r.ms, Tail(sc))

FInit ==
    /\ inMessage \in BOOLEAN
    /\ ims \in {<<x>> : x \in UNION {Forms("f1", t) : t \in ElemTypes}}
            \cup {<<x, y>> : x \in UNION {Forms("f1", t) : t \in {Int(1), Int(4)}},
                             y \in UNION {Forms("f2", t) : t \in ElemTypes}}
            \cup SizedByExisting
    /\ script \in Scripts
    /\ result = <<>> /\ outcome = "todo"

Run ==
    /\ outcome = "todo"
    /\ LET r == RunScript(Flatten(ims, inMessage), script) IN
         /\ outcome' = r.out
         /\ result' = r.ms
    /\ UNCHANGED <<ims, inMessage, script>>

FSpec == FInit /\ [][Run]_fvars

\* the members an applied script yields, as a Schema struct on top of BaseEnv
TargetEnv == Append(BaseEnv, StructDef(Resolved(result)))

\* a rule that names an absent message never changes the result
AbsentIgnored ==
    (outcome # "todo" /\ \A q \in 1..Len(script) : script[q].op = "absent") => result = Flatten(ims, inMessage)

(* ---- isar enumerator values ------------------------------------------------- *)
\* "make_enum converts negative values to unsigned 32-bit": -m denotes 2^32 - m.
\* TLC integers are 32-bit, so the value is given as two 16-bit limbs <<hi, lo>>:
\* 2^32 - m = (2^32 - 1) - (m - 1) = (65535 - q) * 65536 + (65535 - r), m - 1 = q * 65536 + r.
EnumValueLimbs(neg, m) ==
    IF neg THEN <<65535 - ((m - 1) \div 65536), 65535 - ((m - 1) % 65536)>>
    ELSE <<m \div 65536, m % 65536>>
EnumValueForms == {[neg |-> neg, base |-> base, m |-> m, limbs |-> EnumValueLimbs(neg, m)] :
                       neg \in BOOLEAN, base \in {"d", "x"}, m \in {1, 16, 255, 65536, 70000, 2147483647}}
ASSUME PrintT("FEENUM " \o ToJson(EnumValueForms))

FDump == outcome # "todo" =>
    PrintT("FE " \o ToJson([ims |-> ims, inMessage |-> inMessage, script |-> script, outcome |-> outcome,
                              members |-> result]))
=============================================================================
