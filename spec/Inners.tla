------------------------------- MODULE Inners -------------------------------
(***************************************************************************)
(* Curated inner environments shared by the model-checking instances.      *)
(***************************************************************************)
EXTENDS Schema

\* Curated inner types.  Index = position.  Chosen so that every feature the
\* properties name occurs at nesting level 1: alignments 1/2/4/8, optional
\* inside a fixed struct, limited array, dynamic structs ending unaligned and
\* ending in an optional, 8-aligned dynamic struct, externally sized arrays,
\* unlimited structs, unions of alignment 4 and 8 (one with a struct arm that
\* holds an optional, one whose largest arm is not the most aligned one), enums
\* without an enumerator equal to 1, typedefs.
InnerDef == <<
    (* 1  E57  *) EnumDef(<<5, 7>>),
    (* 2  E012 *) EnumDef(<<0, 1, 2>>),
    (* 3  S1   *) StructDef(<<Plain(Int(1))>>),
    (* 4  S2   *) StructDef(<<Plain(Int(2)), Plain(Int(1))>>),
    (* 5  S4   *) StructDef(<<Plain(Int(1)), Plain(Int(4))>>),
    (* 6  S8   *) StructDef(<<Plain(Int(8)), Plain(Int(1))>>),
    (* 7  SO   *) StructDef(<<Opt(Int(1)), Plain(Int(1))>>),
    (* 8  SL   *) StructDef(<<Lim(Int(2), 2)>>),
    (* 9  D1   *) StructDef(<<Dyn(Int(1))>>),
    (* 10 D8   *) StructDef(<<Dyn(Int(8))>>),
    (* 11 DO   *) StructDef(<<Dyn(Int(1)), Opt(Int(1))>>),
    (* 12 DX   *) StructDef(<<Plain(Int(1)), Ext(Int(2), 1)>>),
    (* 13 G1   *) StructDef(<<Greedy(Int(1))>>),
    (* 14 G4   *) StructDef(<<Plain(Int(4)), Greedy(Int(2))>>),
    (* 15 U4   *) UnionDef(<<Arm(0, Int(1)), Arm(1, Ref(4)), Arm(2, Int(4))>>),
    (* 16 U8   *) UnionDef(<<Arm(1, Int(8)), Arm(2, Int(1)), Arm(3, Ref(7))>>),
    (* 17 T2   *) TypedefDef(Int(2)),
    (* 18 TS4  *) TypedefDef(Ref(5)),
    (* 19 SE   *) StructDef(<<Opt(Ref(1)), Plain(Ref(2))>>),
    (* 20 S12  *) StructDef(<<Plain(Int(4)), Plain(Int(4)), Plain(Int(4))>>),
    \* an 8-aligned union whose LARGEST arm is 4-aligned and 12 bytes long (size 24, not 20 or 16)
    (* 21 U8b  *) UnionDef(<<Arm(1, Int(8)), Arm(2, Ref(20))>>)
>>

\* a smaller environment for the quick exhaustive tier
InnerSmall == <<
    EnumDef(<<5, 7>>),
    StructDef(<<Plain(Int(2)), Plain(Int(1))>>),
    StructDef(<<Plain(Int(8)), Plain(Int(1))>>),
    StructDef(<<Dyn(Int(1))>>),
    StructDef(<<Greedy(Int(1))>>),
    UnionDef(<<Arm(1, Int(8)), Arm(2, Int(1))>>)
>>

FormsAll == {"plain", "opt", "fixed", "dyn", "lim", "greedy", "ext"}
FormsPlain == {"plain"}
FormsPlainOpt == {"plain", "opt"}
\* scalar alphabets for the constructor
ScalarsU   == {Int(1), Int(2), Int(4), Int(8)}
ScalarsU18 == {Int(1), Int(8)}
ScalarsAll == {Int(1), Int(2), Int(4), Int(8), SInt(1), SInt(2), SInt(4), SInt(8), Flt(4), Flt(8)}
=============================================================================
