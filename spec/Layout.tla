------------------------------- MODULE Layout -------------------------------
(***************************************************************************)
(* The layout rules of docs/encoding.rst, stated declaratively.            *)
(*                                                                         *)
(* `lay` is the sequence, parallel to `env`, of computed                   *)
(*     [size |-> wire size (meaningful when kind = FIXED; for other kinds  *)
(*               the size of the encoding with every array empty),         *)
(*      align |-> alignment, kind |-> stiffness].                          *)
(*                                                                         *)
(* A struct is laid out as a sequence of PARTS.  A member contributes one  *)
(* part, except `T x<>` / `T x<n>`, which contribute a u32 counter part    *)
(* followed by the element part ("counted by 32-bit unsigned delimiter";   *)
(* counter and elements are aligned separately: u64 x<> -> 01 00 00 00     *)
(* [00 00 00 00] ...).                                                     *)
(***************************************************************************)
EXTENDS Schema

TSize(lay, t)  == IF t.k = "ref" THEN lay[t.i].size  ELSE t.w
TAlign(lay, t) == IF t.k = "ref" THEN lay[t.i].align ELSE t.w
TKind(lay, t)  == IF t.k = "ref" THEN lay[t.i].kind  ELSE FIXED

Kinds(lay) == [i \in 1..Len(lay) |-> lay[i].kind]

PadLen(off, a) == (a - (off % a)) % a
AlignUp(off, a) == off + PadLen(off, a)

\* optional: u32 flag; alignment max(4, align T); value at flag + alignment;
\* size = alignment + size T, NOT rounded up ("optional fields don't follow
\* the composite rule")
OptAlign(lay, t) == Max(4, TAlign(lay, t))
OptSize(lay, t)  == OptAlign(lay, t) + TSize(lay, t)

(* ---- parts ------------------------------------------------------------ *)
\* a: natural alignment; s: static size; d: TRUE iff this part is a "dynamic
\* field" (ends a block); j: member index; r: what it is
Part(a, s, d, j, r) == [a |-> a, s |-> s, d |-> d, j |-> j, r |-> r]

IsSizer(ms, j) == \E q \in 1..Len(ms) : ms[q].f \in {"ext", "limx"} /\ ms[q].c = j

MemberParts(lay, ms, j) ==
    LET m  == ms[j]
        ta == TAlign(lay, m.t)
        ts == TSize(lay, m.t)
    IN CASE m.f = "plain"  -> << Part(ta, ts, TKind(lay, m.t) # FIXED, j,
                                      IF IsSizer(ms, j) THEN "sizer" ELSE "val") >>
         [] m.f = "opt"    -> << Part(OptAlign(lay, m.t), OptSize(lay, m.t), FALSE, j, "opt") >>
         [] m.f = "fixed"  -> << Part(ta, m.n * ts, FALSE, j, "fixed") >>
         [] m.f = "dyn"    -> << Part(4, 4, FALSE, j, "cnt"), Part(ta, 0, TRUE, j, "arr") >>
         [] m.f = "lim"    -> << Part(4, 4, FALSE, j, "cnt"), Part(ta, m.n * ts, FALSE, j, "arr") >>
         [] m.f = "greedy" -> << Part(ta, 0, TRUE, j, "greedy") >>
         [] m.f = "ext"    -> << Part(ta, 0, TRUE, j, "arr") >>
         [] m.f = "limx"   -> << Part(ta, m.n * ts, FALSE, j, "arr") >>

RECURSIVE PartsFrom(_, _, _)
PartsFrom(lay, ms, j) ==
    IF j > Len(ms) THEN <<>> ELSE MemberParts(lay, ms, j) \o PartsFrom(lay, ms, j + 1)
Parts(lay, ms) == PartsFrom(lay, ms, 1)

(* ---- blocks ----------------------------------------------------------- *)
\* "We can split any struct to blocks which end with dynamic fields ...
\*  first field of such block has the greatest alignment of all block fields"
BlockOf(ps, p) == Cardinality({q \in 1..(p - 1) : ps[q].d})
FirstOfLaterBlock(ps, p) == p > 1 /\ ps[p - 1].d
SetMax(S) == CHOOSE x \in S : \A y \in S : y <= x
BlockAlign(ps, p) ==
    SetMax({ps[q].a : q \in {q \in 1..Len(ps) : BlockOf(ps, q) = BlockOf(ps, p)}})
\* effective alignment of part p
EffAlign(ps, p) == IF FirstOfLaterBlock(ps, p) THEN BlockAlign(ps, p) ELSE ps[p].a

StructAlign(ps) == IF ps = <<>> THEN 1 ELSE SetMax({ps[p].a : p \in 1..Len(ps)})

\* offset of the END of part p when every dynamic part is empty
RECURSIVE EndOff(_, _)
EndOff(ps, p) ==
    IF p = 0 THEN 0 ELSE AlignUp(EndOff(ps, p - 1), EffAlign(ps, p)) + ps[p].s
StartOff(ps, p) == AlignUp(EndOff(ps, p - 1), EffAlign(ps, p))

StructSize(ps) == AlignUp(EndOff(ps, Len(ps)), StructAlign(ps))

\* C08: offset of part p relative to the start of its BLOCK (the raw C++
\* codec overlays one struct per block: the main struct and part2, part3 ...);
\* a block starts at an address aligned to its block alignment, so inside a
\* block the natural alignments apply
RECURSIVE RelOff(_, _)
RelOff(ps, p) ==
    IF p = 1 \/ ps[p - 1].d THEN 0
    ELSE AlignUp(RelOff(ps, p - 1) + ps[p - 1].s, ps[p].a)
RawTable(ps) ==
    [p \in 1..Len(ps) |-> [j |-> ps[p].j, r |-> ps[p].r, b |-> BlockOf(ps, p), off |-> RelOff(ps, p),
                           a |-> ps[p].a]]

StructLay(lay, ms) ==
    LET ps == Parts(lay, ms) IN
    [size |-> StructSize(ps), align |-> StructAlign(ps), kind |-> StructKind(Kinds(lay), ms)]

\* union: alignment max(4, arms); discriminator u32 at 0, arm at offset
\* alignment; size = alignment + max arm size, rounded up to the alignment
UnionAlign(lay, arms) == Max(4, SetMax({TAlign(lay, arms[a].t) : a \in 1..Len(arms)}))
UnionSize(lay, arms) ==
    LET al == UnionAlign(lay, arms)
        mx == SetMax({TSize(lay, arms[a].t) : a \in 1..Len(arms)})
    IN AlignUp(al + mx, al)
UnionLay(lay, arms) ==
    [size |-> UnionSize(lay, arms), align |-> UnionAlign(lay, arms), kind |-> FIXED]

EnumLay == [size |-> 4, align |-> 4, kind |-> FIXED]

TypedefLay(lay, t) == [size |-> TSize(lay, t), align |-> TAlign(lay, t), kind |-> TKind(lay, t)]

DefLay(lay, def) ==
    CASE def.k = "struct"  -> StructLay(lay, def.ms)
      [] def.k = "union"   -> UnionLay(lay, def.arms)
      [] def.k = "enum"    -> EnumLay
      [] def.k = "typedef" -> TypedefLay(lay, def.t)

\* layout of a whole environment, front to back
RECURSIVE LayUpTo(_, _)
LayUpTo(env, i) ==
    IF i = 0 THEN <<>> ELSE LET l == LayUpTo(env, i - 1) IN Append(l, DefLay(l, env[i]))
LayAll(env) == LayUpTo(env, Len(env))

\* legality of a whole environment (back references only + per-definition rules)
RefsBack(env, i) ==
    LET def == env[i]
        ok(t) == t.k = "ref" => t.i \in 1..(i - 1)
    IN CASE def.k = "struct"  -> \A j \in 1..Len(def.ms) : ok(def.ms[j].t)
         [] def.k = "union"   -> \A a \in 1..Len(def.arms) : ok(def.arms[a].t)
         [] def.k = "enum"    -> TRUE
         [] def.k = "typedef" -> ok(def.t)

LegalDef(env, lay, def) ==
    CASE def.k = "struct"  -> LegalStruct(env, Kinds(lay), def.ms)
      [] def.k = "union"   -> LegalUnion(Kinds(lay), def.arms)
      [] def.k = "enum"    -> LegalEnum(def.vals)
      [] def.k = "typedef" -> def.t.k # "byte"

LegalEnv(env) ==
    LET lay == LayAll(env) IN
    \A i \in 1..Len(env) :
        RefsBack(env, i) /\ LegalDef(env, SubSeq(lay, 1, i - 1), env[i])

(* ---- theorems about the layout (checked by TLC in the Wire configs) ---- *)
\* every composite's size is a multiple of its alignment
SizeMultipleOfAlign(env, lay) ==
    \A i \in 1..Len(env) : env[i].k \in {"struct", "union"} => lay[i].size % lay[i].align = 0

\* no type is of lesser stiffness than any of its parts
KindMonotone(env, lay) ==
    \A i \in 1..Len(env) :
        /\ env[i].k = "struct" =>
              \A j \in 1..Len(env[i].ms) : lay[i].kind >= TKind(lay, env[i].ms[j].t)
        /\ env[i].k = "typedef" => lay[i].kind = TKind(lay, env[i].t)

\* alignments are powers of two not above 8
AlignPow2(lay) == \A i \in 1..Len(lay) : lay[i].align \in {1, 2, 4, 8}
=============================================================================
