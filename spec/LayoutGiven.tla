---------------------------- MODULE LayoutGiven ----------------------------
(***************************************************************************)
(* Evaluates the declarative layout (Layout.tla) and the legality rules    *)
(* (Schema.tla) for environments given in IOEnv.GIVEN_FILE: [{env}...].    *)
(* One JSON line per environment; no behaviours of interest.               *)
(***************************************************************************)
EXTENDS Layout, TLC, Json, IOUtils

Given == JsonDeserialize(IOEnv.GIVEN_FILE)

\* kinds computed leniently (also for illegal environments): a definition's
\* stiffness only depends on the definitions before it
SetToSeq(S) == IF S = {} THEN <<>> ELSE
    LET RECURSIVE F(_)
        F(T) == IF T = {} THEN <<>> ELSE LET x == CHOOSE x \in T : TRUE IN <<x>> \o F(T \ {x})
    IN F(S)

Violations(e) ==
    LET lay == LayAll(e) IN
    UNION {
        LET ks == Kinds(SubSeq(lay, 1, i - 1)) IN
        (IF RefsBack(e, i) THEN {} ELSE {"back-references-only"})
        \cup (CASE e[i].k = "struct" -> StructViolations(e, ks, e[i].ms)
                [] e[i].k = "union" -> UnionViolations(ks, e[i].arms)
                [] e[i].k = "enum" -> IF LegalEnum(e[i].vals) THEN {} ELSE {"enum-non-empty-unique"}
                [] OTHER -> {})
        : i \in 1..Len(e)}

Report(i) ==
    LET e == Given[i].env
        refs == \A d \in 1..Len(e) : RefsBack(e, d)
        ok == refs /\ LegalEnv(e)
    IN [gid |-> i, legal |-> ok, lay |-> IF ok THEN LayAll(e) ELSE <<>>,
        raw |-> IF ok THEN [d \in 1..Len(e) |-> IF e[d].k = "struct"
                                                 THEN RawTable(Parts(SubSeq(LayAll(e), 1, d - 1), e[d].ms)) ELSE <<>>]
                ELSE <<>>,
        rules |-> IF ok THEN <<>> ELSE IF refs THEN SetToSeq(Violations(e)) ELSE <<"back-references-only">>]

ASSUME \A i \in 1..Len(Given) : PrintT("LAY " \o ToJson(Report(i)))

VARIABLE x
LSpec == x = 0 /\ [][x' = x]_x
=============================================================================
