---------------------------- MODULE LayoutGiven ----------------------------
(***************************************************************************)
(* Evaluates the declarative layout (Layout.tla) and the legality rules    *)
(* (Schema.tla) for environments given in IOEnv.GIVEN_FILE: [{env}...].    *)
(* One JSON line per environment; no behaviours of interest.               *)
(***************************************************************************)
EXTENDS Layout, TLC, Json, IOUtils

Given == JsonDeserialize(IOEnv.GIVEN_FILE)

Report(i) ==
    LET e == Given[i].env
        ok == LegalEnv(e)
    IN [gid |-> i, legal |-> ok, lay |-> IF ok THEN LayAll(e) ELSE <<>>]

ASSUME \A i \in 1..Len(Given) : PrintT("LAY " \o ToJson(Report(i)))

VARIABLE x
LSpec == x = 0 /\ [][x' = x]_x
=============================================================================
