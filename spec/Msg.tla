-------------------------------- MODULE Msg --------------------------------
(***************************************************************************)
(* The Python message object as a state machine (C10 C11).                 *)
(*                                                                         *)
(* Two messages `a` and `b` of the root type of a given schema; every      *)
(* public mutation is an operation record; ApplyLocal gives, for a target  *)
(* node and an operation, the set of allowed (outcome, new value) pairs -  *)
(* the PLAIN REFERENCE MODEL the property speaks of: documented guards +   *)
(* Python list semantics for indices and slices.  A rejected operation     *)
(* leaves the state unchanged by construction; `Independent` (an operation *)
(* on one message never changes the other) is a frame condition here and a *)
(* real obligation for the implementation.                                 *)
(*                                                                         *)
(* Values are uniform records V(k, s, q, n):                               *)
(*   "s"  scalar / enum / bytes : token in s ("0" "1" "max" "min" "1.5",   *)
(*        enumerator index, "b<len>" for a test byte string of that length)*)
(*   "none" absent optional;  "sz" a sizer member (derived, never stored)  *)
(*   "st" struct: q = member values;  "un" union: n = arm, q = <<value>>   *)
(*   "ar" array: q = elements                                              *)
(* Argument tokens are turned into concrete Python objects by the harness  *)
(* ("max" -> the largest value of the field's type, "str" -> a str, ...).  *)
(***************************************************************************)
EXTENDS Layout, Integers, TLC, Json, IOUtils

CONSTANTS ExhaustiveLevels,  \* every operation is explored from states up to this level
          MaxLevel           \* beyond it, up to MaxLevel, only the "cheap" state-building operations

VARIABLES gid, a, b, lvl, tr
mvars == <<gid, a, b, lvl, tr>>

Given == JsonDeserialize(IOEnv.GIVEN_FILE)
env == Given[gid].env
Root == Ref(Len(Given[gid].env))

V(k, s, q, n) == [k |-> k, s |-> s, q |-> q, n |-> n]
Sc(tok) == V("s", tok, <<>>, 0)
None == V("none", "", <<>>, 0)
Copies(n, x) == [j \in 1..n |-> x]

IsComposite(t) == IsStructRef(env, t) \/ IsUnionRef(env, t)
BaseKind(t) ==
    LET bt == Base(env, t) IN
    IF bt.k = "ref" THEN env[bt.i].k ELSE bt.k          \* "int" "flt" "byte" "enum" "struct" "union"

(* ---- default values ---------------------------------------------------- *)
RECURSIVE DefVal(_), DefMember(_, _)
DefVal(t) ==
    LET bt == Base(env, t) IN
    CASE bt.k = "int" -> Sc("0")
      [] bt.k = "flt" -> Sc("0.0")
      [] bt.k = "ref" /\ env[bt.i].k = "enum" -> Sc("1")
      [] bt.k = "ref" /\ env[bt.i].k = "struct" ->
            V("st", "", [j \in 1..Len(env[bt.i].ms) |-> DefMember(env[bt.i].ms, j)], 0)
      [] bt.k = "ref" /\ env[bt.i].k = "union" -> V("un", "", << DefVal(env[bt.i].arms[1].t) >>, 1)
DefMember(ms, j) ==
    LET m == ms[j] IN
    CASE m.f = "plain" -> IF IsSizer(ms, j) THEN V("sz", "", <<>>, 0) ELSE DefVal(m.t)
      [] m.f = "opt" -> None
      [] m.t.k = "byte" -> Sc("b0")
      [] m.f = "fixed" -> V("ar", "", Copies(m.n, DefVal(m.t)), 0)
      [] OTHER -> V("ar", "", <<>>, 0)

(* ---- argument domains --------------------------------------------------- *)
\* scalar-like field of type t: tokens the API must accept / must refuse
IntGood(t) == {"0", "1", "max"} \cup (IF Base(env, t).s = 1 THEN {"min"} ELSE {})
\* "estr" = '', "elist" = [], "zerof" = 0.0: wrongly typed values that are falsy in Python
IntBad == {"min-1", "max+1", "str", "float", "none", "bytes", "estr", "elist", "zerof"}
EnumN(t) == Len(env[Base(env, t).i].vals)
ToS(n) == ToString(n)
EnumGood(t) == {"e" \o ToS(j) : j \in 1..EnumN(t)} \cup {"n" \o ToS(j) : j \in 1..EnumN(t)}
\* "zero" = the integer 0 where no enumerator has that value
EnumBadOf(t) == {"e?", "n?", "float", "none", "bytes", "estr", "zerof"}
                \cup (IF \E j \in 1..EnumN(t) : env[Base(env, t).i].vals[j] = 0 THEN {} ELSE {"zero"})
FltGood == {"0.0", "1.5", "1"}
\* "fbig" = 1e39: too large for a 32-bit float, fine for a 64-bit one
FltBad == {"str", "none", "bytes", "estr", "elist"}
FltBadOf(t) == FltBad \cup (IF Base(env, t).w = 4 THEN {"fbig"} ELSE {})

Good(t) == CASE BaseKind(t) = "int" -> IntGood(t) [] BaseKind(t) = "flt" -> FltGood
             [] BaseKind(t) = "enum" -> EnumGood(t)
Bad(t) == CASE BaseKind(t) = "int" -> IntBad [] BaseKind(t) = "flt" -> FltBadOf(t)
            [] BaseKind(t) = "enum" -> EnumBadOf(t)
\* the stored (canonical) token: enumerators are stored as their index
Canon(t, tok) ==
    IF BaseKind(t) = "enum"
    THEN CHOOSE x \in {ToS(j) : j \in 1..EnumN(t)} : tok = "e" \o x \/ tok = "n" \o x
    ELSE tok

\* bytes member m: length tokens; a sized bytes field refuses longer values
BytesGood(m) == {"b" \o ToS(l) : l \in 0..(IF m.f \in {"fixed", "lim"} THEN m.n ELSE 3)}
BytesBad(m) == {"str", "int", "none"} \cup (IF m.f \in {"fixed", "lim"} THEN {"b" \o ToS(m.n + 1)} ELSE {})

(* ---- operations --------------------------------------------------------- *)
\* path step: [s |-> "f" (member) | "i" (element, 1-based) | "u" (the arm), n]
St(s, n) == [s |-> s, n |-> n]
\* op: target path, operation name, member index j, integers i1 i2 i3, one token, a token list
Op(path, op, j, i1, i2, i3, arg, args) ==
    [path |-> path, op |-> op, j |-> j, i1 |-> i1, i2 |-> i2, i3 |-> i3, arg |-> arg, args |-> args]
NoneIdx == 99     \* "no bound" in a slice

Idx(n) == {-(n + 1), -n, -1, 0, n - 1, n, n + 1}
SliceBounds(n) == {1, -1, NoneIdx}

ArgSeqs(t) ==    \* argument lists for extend / slice assignment
    LET g == CHOOSE x \in Good(t) : TRUE
        h == CHOOSE x \in Good(t) : x # g
        w == CHOOSE x \in Bad(t) : TRUE
    IN {<<>>, <<g>>, <<h, g>>, <<g, h, g>>, <<g, h, w>>}

\* remove(v) compares with the stored values: enumerators are stored as numbers
\* (removal by enumerator NAME is not documented and not modelled)
RemoveArgs(t) == IF BaseKind(t) = "enum" THEN {"n" \o ToS(j) : j \in 1..EnumN(t)} ELSE Good(t)

\* element type t is a struct whose first member is a plain, settable scalar
KwMember(t) ==
    /\ IsStructRef(env, t)
    /\ LET ms == env[Base(env, t).i].ms IN
         ms # <<>> /\ ms[1].f = "plain" /\ ~IsComposite(ms[1].t) /\ ms[1].t.k # "byte" /\ ~IsSizer(ms, 1)
KwType(t) == env[Base(env, t).i].ms[1].t

\* operations offered by an array member m holding n elements
ArrayOps(path, m, n) ==
    LET t == m.t
        scal == ~IsComposite(t)
    IN
    IF m.f = "fixed" /\ scal THEN
        {Op(path, "setitem", 0, i, 0, 0, x, <<>>) : i \in Idx(n), x \in Good(t) \cup Bad(t)}
        \cup {Op(path, "setslice", 0, lo, hi, 0, "", xs) : lo \in SliceBounds(n), hi \in SliceBounds(n), xs \in ArgSeqs(t)}
        \* the same slice written with an explicit step of 1: x[lo:hi:1] = xs (an ordinary, resizing slice in Python)
        \cup {Op(path, "setslice1", 0, lo, hi, 0, "", xs) : lo \in {1, NoneIdx}, hi \in SliceBounds(n), xs \in ArgSeqs(t)}
    ELSE IF m.f = "fixed" THEN {}
    ELSE IF scal THEN
        {Op(path, "append", 0, 0, 0, 0, x, <<>>) : x \in Good(t) \cup Bad(t)}
        \cup {Op(path, "insert", 0, i, 0, 0, x, <<>>) : i \in Idx(n), x \in Good(t) \cup {CHOOSE w \in Bad(t) : TRUE}}
        \cup {Op(path, "extend", 0, 0, 0, 0, "", xs) : xs \in ArgSeqs(t)}
        \cup {Op(path, "setitem", 0, i, 0, 0, x, <<>>) : i \in Idx(n), x \in Good(t) \cup {CHOOSE w \in Bad(t) : TRUE}}
        \cup {Op(path, "setslice", 0, lo, hi, 0, "", xs) : lo \in SliceBounds(n), hi \in SliceBounds(n), xs \in ArgSeqs(t)}
        \cup {Op(path, "setslice1", 0, lo, hi, 0, "", xs) : lo \in {1, NoneIdx}, hi \in SliceBounds(n), xs \in ArgSeqs(t)}
        \cup {Op(path, "setstep", 0, lo, hi, st, "", xs) : lo \in {0, 1, NoneIdx}, hi \in {NoneIdx}, st \in {2, -1}, xs \in ArgSeqs(t)}
        \cup {Op(path, "delitem", 0, i, 0, 0, "", <<>>) : i \in Idx(n)}
        \cup {Op(path, "delslice", 0, lo, hi, 0, "", <<>>) : lo \in SliceBounds(n), hi \in SliceBounds(n)}
        \cup {Op(path, "remove", 0, 0, 0, 0, x, <<>>) : x \in RemoveArgs(t)}
    ELSE
        {Op(path, "add", 0, 0, 0, 0, "", <<>>)}
        \cup {Op(path, "delitem", 0, i, 0, 0, "", <<>>) : i \in Idx(n)}
        \cup {Op(path, "delslice", 0, lo, hi, 0, "", <<>>) : lo \in SliceBounds(n), hi \in SliceBounds(n)}
        \cup {Op(path, "extendself", 0, 0, 0, 0, "", <<>>)}   \* x.extend(x) / x.extend(list(x)): copies of its own elements
        \cup {Op(path, "extendbad", 0, 0, 0, 0, "", <<>>)}    \* extend([own first element if any, an object of another class])
        \* add(<first member> = x) when the element is a struct whose first member is a plain scalar
        \cup (IF KwMember(t) THEN {Op(path, "addkw", 0, 0, 0, 0, x, <<>>) : x \in {CHOOSE g \in Good(KwType(t)) : TRUE}
                                                                              \cup {CHOOSE w \in Bad(KwType(t)) \ {"none"} : TRUE}}
              ELSE {})
        \cup {Op(path, "extendother", 0, 0, 0, 0, "", <<>>)}  \* extend with the same array of the OTHER message

RECURSIVE OpsAt(_, _, _)
\* every operation available inside value v of type t located at `path`
OpsAt(t, v, path) ==
    LET bt == Base(env, t) IN
    IF bt.k # "ref" \/ env[bt.i].k = "enum" THEN {}
    ELSE IF env[bt.i].k = "union" THEN
        LET arms == env[bt.i].arms IN
        {Op(path, "disc", 0, 0, 0, 0, x, <<>>) :
            x \in {"a" \o ToS(k) : k \in 1..Len(arms)} \cup {"d" \o ToS(k) : k \in 1..Len(arms)}
                  \cup {"a?", "d?", "float", "none"}}
        \cup {Op(path, "readarm", k, 0, 0, 0, "", <<>>) : k \in 1..Len(arms)}
        \cup UNION {IF IsComposite(arms[k].t) THEN {}
                    ELSE {Op(path, "setarm", k, 0, 0, 0, x, <<>>) : x \in Good(arms[k].t) \cup Bad(arms[k].t)}
                    : k \in 1..Len(arms)}
        \cup OpsAt(arms[v.n].t, v.q[1], Append(path, St("u", v.n)))
    ELSE
        LET ms == env[bt.i].ms IN
        UNION {
            LET m == ms[j]
                x == v.q[j]
                p == Append(path, St("f", j))
            IN
            CASE m.f = "plain" /\ IsSizer(ms, j) -> {}
              [] m.f = "plain" /\ IsComposite(m.t) ->
                    {Op(path, "assign", j, 0, 0, 0, "any", <<>>)} \cup OpsAt(m.t, x, p)
              [] m.f = "plain" ->
                    {Op(path, "set", j, 0, 0, 0, tok, <<>>) : tok \in Good(m.t) \cup Bad(m.t)}
              [] m.f = "opt" /\ IsComposite(m.t) ->
                    {Op(path, "setopt", j, 0, 0, 0, tok, <<>>) : tok \in {"true", "none", "int", "str"}}
                    \cup (IF x.k = "none" THEN {} ELSE OpsAt(m.t, x, p))
              [] m.f = "opt" ->
                    {Op(path, "set", j, 0, 0, 0, tok, <<>>) : tok \in Good(m.t) \cup (Bad(m.t) \ {"none"}) \cup {"none"}}
              [] m.t.k = "byte" ->
                    {Op(path, "set", j, 0, 0, 0, tok, <<>>) : tok \in BytesGood(m) \cup BytesBad(m)}
              [] OTHER ->
                    {Op(path, "assign", j, 0, 0, 0, "any", <<>>)}
                    \cup ArrayOps(p, m, Len(x.q))
                    \cup (IF IsComposite(m.t)
                          THEN UNION {OpsAt(m.t, x.q[e], Append(p, St("i", e))) : e \in 1..Len(x.q)}
                          ELSE {})
            : j \in 1..Len(ms)}

(* ---- Python list semantics ---------------------------------------------- *)
\* normalised slice bound (0-based, clamped) for a list of length n
Clamp(i, n) == IF i = NoneIdx THEN NoneIdx ELSE IF i < 0 THEN (IF n + i < 0 THEN 0 ELSE n + i) ELSE IF i > n THEN n ELSE i
Lo(i, n) == IF i = NoneIdx THEN 0 ELSE Clamp(i, n)
Hi(i, n) == IF i = NoneIdx THEN n ELSE Clamp(i, n)
\* list[lo:hi] = xs
SliceAssign(s, lo, hi, xs) ==
    LET n == Len(s)
        l == Lo(lo, n)
        h == IF Hi(hi, n) < l THEN l ELSE Hi(hi, n)
    IN SubSeq(s, 1, l) \o xs \o SubSeq(s, h + 1, n)
SliceLen(s, lo, hi) ==
    LET n == Len(s) l == Lo(lo, n) h == Hi(hi, n) IN IF h < l THEN 0 ELSE h - l
\* positions (1-based) selected by list[lo::step] (hi = None), step 2 or -1
StepPositions(n, lo, st) ==
    IF st = 2 THEN LET l == Lo(lo, n) IN [q \in 1..((n - l + 1) \div 2) |-> l + 1 + 2 * (q - 1)]
    ELSE \* step -1, lo None: n, n-1, ..., 1 ; lo = i: i+1, i, ..., 1
         LET top == IF lo = NoneIdx THEN n ELSE (IF Clamp(lo, n) >= n THEN n ELSE Clamp(lo, n) + 1)
         IN [q \in 1..top |-> top + 1 - q]
InsertAt(s, i, x) ==
    LET n == Len(s) p == IF i < 0 THEN (IF n + i < 0 THEN 0 ELSE n + i) ELSE IF i > n THEN n ELSE i
    IN SubSeq(s, 1, p) \o <<x>> \o SubSeq(s, p + 1, n)
IndexOK(i, n) == i >= -n /\ i < n
Pos(i, n) == IF i < 0 THEN n + i + 1 ELSE i + 1          \* 1-based position of a valid index
RemoveAt(s, p) == SubSeq(s, 1, p - 1) \o SubSeq(s, p + 1, Len(s))

Res(out, v) == [out |-> out, v |-> v]

(* ---- local semantics: allowed (outcome, new target value) ---------------- *)
\* target = struct value v with members ms; operation on member j
StructOp(ms, v, op) ==
    LET m == ms[op.j]
        x == v.q[op.j]
        put(y) == [v EXCEPT !.q[op.j] = y]
    IN
    CASE op.op = "assign" -> {Res("reject", v)}      \* arrays and composites cannot be assigned
      [] op.op = "set" /\ m.t.k = "byte" ->
            IF op.arg \in BytesGood(m) THEN {Res("ok", put(Sc(op.arg)))} ELSE {Res("reject", v)}
      [] op.op = "set" /\ m.f = "opt" /\ op.arg = "none" -> {Res("ok", put(None))}
      [] op.op = "set" ->
            IF op.arg \in Good(m.t) THEN {Res("ok", put(Sc(Canon(m.t, op.arg))))} ELSE {Res("reject", v)}
      [] op.op = "setopt" ->
            CASE op.arg = "none" -> {Res("ok", put(None))}
              [] op.arg = "true" -> IF x.k = "none" THEN {Res("ok", put(DefVal(m.t)))}
                                    ELSE {Res("ok", v), Res("ok", put(DefVal(m.t)))}   \* keep or reset: docs silent
              [] OTHER -> {Res("reject", v)}

UnionOp(arms, v, op) ==
    CASE op.op = "disc" ->
            IF \E k \in 1..Len(arms) : op.arg \in {"a" \o ToS(k), "d" \o ToS(k)}
            THEN LET k == CHOOSE k \in 1..Len(arms) : op.arg \in {"a" \o ToS(k), "d" \o ToS(k)} IN
                 IF k = v.n THEN {Res("ok", v)} ELSE {Res("ok", V("un", "", << DefVal(arms[k].t) >>, k))}
            ELSE {Res("reject", v)}
      [] op.op = "readarm" -> IF op.j = v.n THEN {Res("ok", v)} ELSE {Res("reject", v)}
      [] op.op = "setarm" ->
            IF op.j = v.n /\ op.arg \in Good(arms[op.j].t)
            THEN {Res("ok", [v EXCEPT !.q = << Sc(Canon(arms[op.j].t, op.arg)) >>])}
            ELSE {Res("reject", v)}

AllGood(t, xs) == \A q \in 1..Len(xs) : xs[q] \in Good(t)
Vals(t, xs) == [q \in 1..Len(xs) |-> Sc(Canon(t, xs[q]))]

\* target = array value v of member m; `other` = the same array in the other message
ArrayOp(m, v, op, other) ==
    LET t == m.t
        s == v.q
        n == Len(s)
        lim == IF m.f = "lim" THEN m.n ELSE 0
        fits(k) == lim = 0 \/ k <= lim
        put(q) == [v EXCEPT !.q = q]
    IN
    CASE op.op = "append" ->
            IF op.arg \in Good(t) /\ fits(n + 1) THEN {Res("ok", put(Append(s, Sc(Canon(t, op.arg)))))}
            ELSE {Res("reject", v)}
      [] op.op = "insert" ->
            IF op.arg \in Good(t) /\ fits(n + 1) THEN {Res("ok", put(InsertAt(s, op.i1, Sc(Canon(t, op.arg)))))}
            ELSE {Res("reject", v)}
      [] op.op = "extend" ->
            IF AllGood(t, op.args) /\ fits(n + Len(op.args)) THEN {Res("ok", put(s \o Vals(t, op.args)))}
            ELSE {Res("reject", v)}                  \* nothing appended
      [] op.op = "setitem" ->
            IF op.arg \notin Good(t) THEN {Res("reject", v)} \cup (IF IndexOK(op.i1, n) THEN {} ELSE {Res("index", v)})
            ELSE IF IndexOK(op.i1, n) THEN {Res("ok", put([s EXCEPT ![Pos(op.i1, n)] = Sc(Canon(t, op.arg))]))}
            ELSE {Res("index", v)}
      [] op.op \in {"setslice", "setslice1"} ->
            IF ~AllGood(t, op.args) THEN {Res("reject", v)}
            ELSE IF m.f = "fixed"
                 THEN IF SliceLen(s, op.i1, op.i2) = Len(op.args) /\ Lo(op.i1, n) <= Hi(op.i2, n)
                      THEN {Res("ok", put(SliceAssign(s, op.i1, op.i2, Vals(t, op.args))))}
                      ELSE IF SliceLen(s, op.i1, op.i2) = Len(op.args) /\ Len(op.args) = 0
                           THEN {Res("ok", v)} ELSE {Res("reject", v)}
                 ELSE IF fits(Len(SliceAssign(s, op.i1, op.i2, Vals(t, op.args))))
                      THEN {Res("ok", put(SliceAssign(s, op.i1, op.i2, Vals(t, op.args))))}
                      ELSE {Res("reject", v)}
      [] op.op = "setstep" ->
            LET ps == StepPositions(n, op.i1, op.i3) IN
            IF ~AllGood(t, op.args) THEN {Res("reject", v)}
            ELSE IF Len(ps) = Len(op.args)
                 THEN {Res("ok", put([q \in 1..n |-> IF \E r \in 1..Len(ps) : ps[r] = q
                                                       THEN Sc(Canon(t, op.args[CHOOSE r \in 1..Len(ps) : ps[r] = q]))
                                                       ELSE s[q]]))}
                 ELSE {Res("reject", v), Res("value", v)}   \* extended slice of another size: ValueError
      [] op.op = "delitem" ->
            IF IndexOK(op.i1, n) THEN {Res("ok", put(RemoveAt(s, Pos(op.i1, n))))} ELSE {Res("index", v)}
      [] op.op = "delslice" -> {Res("ok", put(SliceAssign(s, op.i1, op.i2, <<>>)))}
      [] op.op = "remove" ->
            LET y == Sc(Canon(t, op.arg)) IN
            IF \E q \in 1..n : s[q] = y
            THEN {Res("ok", put(RemoveAt(s, CHOOSE q \in 1..n : s[q] = y /\ \A r \in 1..(q - 1) : s[r] # y)))}
            ELSE {Res("value", v)}
      [] op.op = "add" ->
            IF fits(n + 1) THEN {Res("ok", put(Append(s, DefVal(t))))} ELSE {Res("reject", v)}
      [] op.op = "extendself" ->
            IF fits(n + n) THEN {Res("ok", put(s \o s))} ELSE {Res("reject", v)}
      [] op.op = "extendother" ->
            IF fits(n + Len(other.q)) THEN {Res("ok", put(s \o other.q))} ELSE {Res("reject", v)}
      \* a sequence containing an element of another class is refused as a whole
      \* (TypeError from copy_from, or the limit check): nothing is appended
      [] op.op = "extendbad" -> {Res("type", v), Res("reject", v)}
      \* the element is appended only if the attribute value is accepted
      [] op.op = "addkw" ->
            IF ~fits(n + 1) \/ op.arg \notin Good(KwType(t)) THEN {Res("reject", v)}
            ELSE {Res("ok", put(Append(s, [DefVal(t) EXCEPT !.q[1] = Sc(Canon(KwType(t), op.arg))])))}

(* ---- applying an operation at a path ------------------------------------- *)
RECURSIVE ApplyAt(_, _, _, _, _)
\* set of Res(out, new v) for applying op whose remaining path is `path`
\* inside value v of type t; o = the corresponding node of the other message
\* (or v itself when the shapes have diverged - only used by extendother)
ApplyAt(t, v, o, path, op) ==
    LET bt == Base(env, t)
        def == env[bt.i]
    IN
    IF path = <<>> THEN
        IF def.k = "union" THEN UnionOp(def.arms, v, op)
        ELSE StructOp(def.ms, v, op)
    ELSE
        LET h == Head(path) IN
        IF h.s = "u" THEN
            IF v.n # h.n THEN {Res("reject", v)}          \* not the discriminated arm any more
            ELSE {Res(r.out, [v EXCEPT !.q = << r.v >>]) :
                     r \in ApplyAt(def.arms[h.n].t, v.q[1], IF o.k = "un" /\ o.n = v.n THEN o.q[1] ELSE v.q[1], Tail(path), op)}
        ELSE IF h.s = "f" THEN
            LET m == def.ms[h.n]
                x == v.q[h.n]
                ox == IF o.k = "st" THEN o.q[h.n] ELSE x
            IN
            IF Len(path) = 1 /\ m.f \in ArrayForms /\ m.t.k # "byte" /\ op.op \notin {"assign", "set", "setopt"}
            THEN {Res(r.out, [v EXCEPT !.q[h.n] = r.v]) : r \in ArrayOp(m, x, op, IF ox.k = "ar" THEN ox ELSE x)}
            ELSE IF Len(path) >= 2 /\ path[2].s = "i"
            THEN LET e == path[2].n
                     oe == IF ox.k = "ar" /\ e <= Len(ox.q) THEN ox.q[e] ELSE x.q[e]
                 IN {Res(r.out, [v EXCEPT !.q[h.n].q[e] = r.v]) :
                        r \in ApplyAt(m.t, x.q[e], oe, Tail(Tail(path)), op)}
            ELSE {Res(r.out, [v EXCEPT !.q[h.n] = r.v]) : r \in ApplyAt(m.t, x, ox, Tail(path), op)}
        ELSE {Res("reject", v)}

(* ---- encodability (the one documented encode-time refusal) --------------- *)
RECURSIVE EncOK(_, _)
EncOK(t, v) ==
    LET bt == Base(env, t) IN
    IF bt.k # "ref" \/ env[bt.i].k = "enum" THEN TRUE
    ELSE IF env[bt.i].k = "union" THEN EncOK(env[bt.i].arms[v.n].t, v.q[1])
    ELSE LET ms == env[bt.i].ms IN
         /\ \A j, q \in 1..Len(ms) :
               (ms[j].f = "ext" /\ ms[q].f = "ext" /\ ms[j].c = ms[q].c) =>
                   (IF ms[j].t.k = "byte" THEN v.q[j].s ELSE ToS(Len(v.q[j].q)))
                   = (IF ms[q].t.k = "byte" THEN v.q[q].s ELSE ToS(Len(v.q[q].q)))
         /\ \A j \in 1..Len(ms) :
               CASE ms[j].f = "plain" /\ ~IsSizer(ms, j) -> EncOK(ms[j].t, v.q[j])
                 [] ms[j].f = "opt" -> v.q[j].k = "none" \/ EncOK(ms[j].t, v.q[j])
                 [] ms[j].f \in ArrayForms /\ ms[j].t.k # "byte" ->
                       \A e \in 1..Len(v.q[j].q) : EncOK(ms[j].t, v.q[j].q[e])
                 [] OTHER -> TRUE

(* ---- the machine ----------------------------------------------------------- *)
NoTr == [m |-> "-", op |-> Op(<<>>, "init", 0, 0, 0, 0, "", <<>>), out |-> "ok"]

MInit ==
    /\ gid \in 1..Len(Given)
    /\ a = DefVal(Root) /\ b = DefVal(Root)
    /\ lvl = 0
    /\ tr = NoTr

\* operations that build up interesting states (used beyond the exhaustive levels)
Cheap(op) ==
    \/ op.op \in {"add", "extendother", "extendself"}
    \/ op.op = "setopt" /\ op.arg \in {"true", "none"}
    \/ op.op = "disc" /\ op.arg \in {"a1", "a2", "a3"}
    \/ op.op \in {"set", "append", "setarm"} /\ op.arg \in {"1", "max", "e2", "b1", "1.5", "none"}
    \/ op.op = "delitem" /\ op.i1 = 0

Mutate(m) ==
    LET v == IF m = "a" THEN a ELSE b
        o == IF m = "a" THEN b ELSE a
    IN \E op \in OpsAt(Root, v, <<>>) :
         /\ (lvl <= ExhaustiveLevels \/ Cheap(op))
         /\ \E r \in ApplyAt(Root, v, o, op.path, op) :
            /\ IF m = "a" THEN a' = r.v /\ b' = b ELSE b' = r.v /\ a' = a
            /\ tr' = [m |-> m, op |-> op, out |-> r.out]

CopyFrom(m) ==       \* m.copy_from(other)
    /\ IF m = "a" THEN a' = b /\ b' = b ELSE b' = a /\ a' = a
    /\ tr' = [m |-> m, op |-> Op(<<>>, "copy_from", 0, 0, 0, 0, "", <<>>), out |-> "ok"]

CopyFromWrongClass(m) ==   \* TypeError, nothing changes
    /\ UNCHANGED <<a, b>>
    /\ tr' = [m |-> m, op |-> Op(<<>>, "copy_from_wrong", 0, 0, 0, 0, "", <<>>), out |-> "type"]

Encode(m) ==
    /\ UNCHANGED <<a, b>>
    /\ tr' = [m |-> m, op |-> Op(<<>>, "encode", 0, 0, 0, 0, "", <<>>),
              out |-> IF EncOK(Root, IF m = "a" THEN a ELSE b) THEN "ok" ELSE "reject"]

MNext ==
    /\ lvl' = lvl + 1
    /\ UNCHANGED gid
    /\ \E m \in {"a", "b"} : Mutate(m) \/ CopyFrom(m) \/ Encode(m)
                             \/ (lvl <= ExhaustiveLevels /\ CopyFromWrongClass(m))

MSpec == MInit /\ [][MNext]_mvars

\* exhaustive exploration from every state below ExhaustiveLevels
LevelBound == lvl <= MaxLevel

(* ---- properties ------------------------------------------------------------ *)
RECURSIVE Valid(_, _)
\* only in-range tokens, limits respected, exactly one arm, shapes as the schema says
Valid(t, v) ==
    LET bt == Base(env, t) IN
    CASE bt.k \in {"int", "flt"} -> v.k = "s" /\ v.s \in Good(t) \cup {"0.0"}
      [] bt.k = "ref" /\ env[bt.i].k = "enum" -> v.k = "s" /\ v.s \in {ToS(j) : j \in 1..Len(env[bt.i].vals)}
      [] bt.k = "ref" /\ env[bt.i].k = "union" ->
            v.k = "un" /\ v.n \in 1..Len(env[bt.i].arms) /\ Len(v.q) = 1 /\ Valid(env[bt.i].arms[v.n].t, v.q[1])
      [] bt.k = "ref" /\ env[bt.i].k = "struct" ->
            LET ms == env[bt.i].ms IN
            v.k = "st" /\ Len(v.q) = Len(ms) /\
            \A j \in 1..Len(ms) :
                CASE ms[j].f = "plain" /\ IsSizer(ms, j) -> v.q[j].k = "sz"
                  [] ms[j].f = "plain" -> Valid(ms[j].t, v.q[j])
                  [] ms[j].f = "opt" -> v.q[j].k = "none" \/ Valid(ms[j].t, v.q[j])
                  [] ms[j].t.k = "byte" -> v.q[j].k = "s" /\ v.q[j].s \in BytesGood(ms[j])
                  [] OTHER -> /\ v.q[j].k = "ar"
                              /\ (ms[j].f = "fixed" => Len(v.q[j].q) = ms[j].n)
                              /\ (ms[j].f = "lim" => Len(v.q[j].q) <= ms[j].n)
                              /\ \A e \in 1..Len(v.q[j].q) : Valid(ms[j].t, v.q[j].q[e])

AlwaysValid == Valid(Root, a) /\ Valid(Root, b)

\* a refused operation leaves both messages unchanged (action property)
RejectedUnchanged == [][tr'.out # "ok" => (a' = a /\ b' = b)]_mvars
\* an operation on one message never changes the other, copy_from excepted
Independent == [][(tr'.m = "a" => b' = b) /\ (tr'.m = "b" => a' = a)]_mvars

\* one JSON line per transition: pre-state, operation, allowed outcome and the
\* new value of the message operated on (the other one is unchanged, see
\* Independent; for copy_from the new value is the other message's)
TDumpAction ==
    [][PrintT("MTR " \o ToJson([gid |-> gid, a |-> a, b |-> b, m |-> tr'.m, op |-> tr'.op, out |-> tr'.out,
                                  v |-> IF tr'.m = "a" THEN a' ELSE b']))]_mvars
=============================================================================
