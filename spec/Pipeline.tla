------------------------------ MODULE Pipeline ------------------------------
(***************************************************************************)
(* The prophyc pipeline as an outcome automaton (C13).                     *)
(*                                                                         *)
(*  Options -> Files -> Parse -> Patch -> Sort -> XRef -> Sizes ->         *)
(*  Generate -> Done                   | Failed("designed")                *)
(*                                                                         *)
(* An input is (front-end, fault class, position, patch fault, option      *)
(* fault).  Every fault class is detected in one phase, where the          *)
(* pipeline must leave through its designed error channel; a few are       *)
(* tolerated by design (a warning) and the run completes.  There is no     *)
(* transition to an "internal exception" outcome and no phase can be       *)
(* re-entered, so the design terminates with outputs or a designed         *)
(* diagnostic - the property the implementation is held to for every       *)
(* enumerated input.                                                       *)
(***************************************************************************)
EXTENDS Naturals, Sequences, TLC, Json

Phases == <<"Options", "Files", "Parse", "Patch", "Sort", "XRef", "Sizes", "Generate", "Done">>

ProphyFaults == {"none", "delete_token", "swap_tokens", "illegal_char", "undefined_type", "duplicate_name",
                 "division_by_zero", "negative_size", "missing_include", "cyclic_include", "self_include",
                 "self_recursive_struct", "mutually_recursive_structs", "unterminated_comment", "empty_file",
                 "random_text", "constant_as_type", "greedy_not_last", "token_fuzz", "self_typedef_sizer",
                 "negative_shift", "huge_shift", "huge_array", "deep_parentheses", "nul_byte", "byte_order_mark",
                 "typedef_of_undefined", "union_self_arm", "enum_self_reference", "non_utf8", "non_utf8_include",
                 "include_directory", "deep_typedef_chain", "absurd_shift", "huge_literal"}
IsarFaults == {"none", "malformed_xml", "type_cycle", "self_reference", "undefined_type", "duplicate_enum_value",
               "missing_include", "bad_dimension", "member_without_name", "member_without_type", "empty_root",
               "random_text", "constant_cycle", "token_fuzz", "self_typedef_member", "typedef_cycle_member",
               "union_self_arm", "negative_shift_constant", "huge_dimension", "dangling_expression", "typedef_without_type",
               "enum_without_members", "non_numeric_enum_value", "non_numeric_discriminator", "non_utf8",
               "division_by_zero", "size_names_type", "absurd_shift", "empty_member_name",
               "malformed_operator_call", "huge_literal"}
PatchFaults == {"none", "one_word_line", "unknown_action", "wrong_param_count", "member_not_found", "non_integer_index",
                "absent_message", "empty_patch", "non_utf8_patch", "bad_size_expression", "valid_rules"}
OptionFaults == {"none", "no_input", "no_output", "missing_input_file", "isar_and_sack", "missing_include_dir",
                 "missing_patch_file", "unknown_option"}

\* phase in which a fault must be detected; "-" = tolerated (the run completes)
DetectedIn(fe, f) ==
    CASE f = "none" -> "-"
      [] fe = "prophy" /\ f \in {"missing_include", "cyclic_include", "self_include", "non_utf8", "non_utf8_include",
                                   "include_directory"} -> "Files"
      [] fe = "isar" /\ f = "non_utf8" -> "Files"
      [] fe = "prophy" -> "Parse"
      [] fe = "isar" /\ f \in {"malformed_xml", "duplicate_enum_value", "member_without_name", "empty_root",
                                 "random_text"} -> "Parse"
      [] fe = "isar" /\ f \in {"type_cycle", "self_reference", "constant_cycle", "self_typedef_member",
                                 "typedef_cycle_member", "union_self_arm"} -> "Sort"
      [] fe = "isar" /\ f \in {"token_fuzz", "non_numeric_enum_value"} -> "Parse"
      [] fe = "isar" /\ f \in {"negative_shift_constant", "huge_dimension", "dangling_expression",
                                 "non_numeric_discriminator"} -> "XRef"
      [] fe = "isar" /\ f \in {"bad_dimension", "member_without_type"} -> "Sizes"
      [] fe = "isar" -> "-"              \* undefined type, missing include: warnings
PatchDetectedIn(f) == IF f \in {"none", "absent_message", "empty_patch", "valid_rules"} THEN "-" ELSE "Patch"
OptionDetectedIn(f) == IF f = "none" THEN "-" ELSE "Options"

VARIABLES fe, fault, pos, pfault, ofault, phase, outcome
pvars == <<fe, fault, pos, pfault, ofault, phase, outcome>>

PInit ==
    /\ fe \in {"prophy", "isar"}
    /\ fault \in (IF fe = "prophy" THEN ProphyFaults ELSE IsarFaults)
    /\ pos \in (IF fault \in {"delete_token", "swap_tokens", "illegal_char"} THEN 1..12
                ELSE IF fault = "token_fuzz" THEN 1..40 ELSE {0})
    /\ pfault \in (IF fe = "isar" /\ fault = "none" THEN PatchFaults ELSE {"none"})
    /\ ofault \in (IF fault = "none" /\ pfault = "none" THEN OptionFaults ELSE {"none"})
    /\ phase = 1
    /\ outcome = "running"

Step ==
    /\ outcome = "running"
    /\ LET p == Phases[phase] IN
         IF p = "Done" THEN outcome' = "ok" /\ phase' = phase
         ELSE IF p \in {OptionDetectedIn(ofault), DetectedIn(fe, fault), PatchDetectedIn(pfault)}
              THEN outcome' = "designed-diagnostic" /\ phase' = phase
              ELSE outcome' = outcome /\ phase' = phase + 1
    /\ UNCHANGED <<fe, fault, pos, pfault, ofault>>

PSpec == PInit /\ [][Step]_pvars /\ WF_pvars(Step)

Terminates == <>(outcome # "running")
DesignedOnly == outcome \in {"running", "ok", "designed-diagnostic"}
Monotone == [][phase' >= phase]_pvars
\* a completed run passed through every phase (all requested outputs written)
AllOrNothing == outcome = "ok" => Phases[phase] = "Done"

PDump == outcome # "running" =>
    PrintT("PCASE " \o ToJson([fe |-> fe, fault |-> fault, pos |-> pos, pfault |-> pfault, ofault |-> ofault,
                                expected |-> outcome]))
=============================================================================
