------------------------------- MODULE Print -------------------------------
(***************************************************************************)
(* Text rendering of a message (C18), as a state machine over the same     *)
(* schema + walk the encoder uses.  Source: docs/python_codec.rst,         *)
(* docs/cpp_full_codec.rst and the property statement:                     *)
(*   one "name: value" line per scalar in declaration order; enumerators   *)
(*   by name; bytes as a quoted escaped string; array elements repeated    *)
(*   under the field name; absent optionals and array counters omitted;    *)
(*   only the discriminated union arm; nested composites as indented       *)
(*   "name { ... }" blocks (two spaces per level).                         *)
(* The machine is stateless across fields: a line depends only on the      *)
(* field's name, indentation and value (PrintCompositional).               *)
(*                                                                         *)
(* Items come from IOEnv.GIVEN_FILE: [{env, names, walk}], names[i] being  *)
(* the name of type i; fields are f<j>, arms a<k>, enumerators <T>_e<j>.   *)
(***************************************************************************)
EXTENDS Layout, TLC, Json, IOUtils

VARIABLES gid, ptodo, pframes, wpos, lines, pphase

pvars == <<gid, ptodo, pframes, wpos, lines, pphase>>

Given == JsonDeserialize(IOEnv.GIVEN_FILE)
env == Given[gid].env
names == Given[gid].names
TW == Given[gid].walk

(* ---- character tables ---------------------------------------------------- *)
\* printable ASCII 32..126 (a backslash is rendered doubled)
Printable == << " ", "!", "\"", "#", "$", "%", "&", "'", "(", ")", "*", "+", ",", "-", ".", "/", "0", "1", "2", "3", "4", "5", "6", "7", "8", "9", ":", ";", "<", "=", ">", "?", "@", "A", "B", "C", "D", "E", "F", "G", "H", "I", "J", "K", "L", "M", "N", "O", "P", "Q", "R", "S", "T", "U", "V", "W", "X", "Y", "Z", "[", "\\\\", "]", "^", "_", "`", "a", "b", "c", "d", "e", "f", "g", "h", "i", "j", "k", "l", "m", "n", "o", "p", "q", "r", "s", "t", "u", "v", "w", "x", "y", "z", "{", "|", "}", "~" >>
HexDigit == << "0", "1", "2", "3", "4", "5", "6", "7", "8", "9", "a", "b", "c", "d", "e", "f" >>
ByteText(b) ==
    CASE b = 9 -> "\\t" [] b = 10 -> "\\n" [] b = 13 -> "\\r"
      [] b >= 32 /\ b <= 126 -> Printable[b - 31]
      [] OTHER -> "\\x" \o HexDigit[(b \div 16) + 1] \o HexDigit[(b % 16) + 1]

RECURSIVE Concat(_)
Concat(ss) == IF ss = <<>> THEN "" ELSE Head(ss) \o Concat(Tail(ss))

Indent(n) == Concat([j \in 1..n |-> "  "])

(* ---- decimal rendering of a little-endian scalar ---------------------- *)
Pow(j) == CASE j = 0 -> 1 [] j = 1 -> 256 [] j = 2 -> 65536 [] j = 3 -> 16777216
Small(bytes) == \A j \in 1..Len(bytes) : (j > 4 => bytes[j] = 0) /\ (j = 4 => bytes[j] < 128)
Val(bytes) == LET n == Min(4, Len(bytes)) IN
    (IF n >= 1 THEN bytes[1] ELSE 0) + (IF n >= 2 THEN 256 * bytes[2] ELSE 0)
    + (IF n >= 3 THEN 65536 * bytes[3] ELSE 0) + (IF n >= 4 THEN 16777216 * bytes[4] ELSE 0)
Dec(bytes, signed) ==
    LET w == Len(bytes) IN
    IF signed = 1 /\ bytes[w] >= 128
    THEN IF \A j \in 1..w : bytes[j] = 255 THEN "-1"
         ELSE IF w <= 2 THEN "-" \o ToString(Pow(w) - Val(bytes))
         ELSE "?"
    ELSE IF Small(bytes) THEN ToString(Val(bytes)) ELSE "?"

(* ---- tasks ---------------------------------------------------------------- *)
PT(op, t, nm, ind, n, m) == [op |-> op, t |-> t, nm |-> nm, ind |-> ind, n |-> n, m |-> m]
FName(j) == "f" \o ToString(j)
AName(a) == "a" \o ToString(a)
EName(i, j) == names[i] \o "_e" \o ToString(j)

PTop == Head(ptodo)
PRest == Tail(ptodo)
Ev == TW[wpos]
HasEv == wpos <= Len(TW)

Copies(n, x) == [j \in 1..n |-> x]

MemberTasks(ms, j, ind) ==
    LET m == ms[j]
        nm == FName(j)
    IN CASE m.f = "plain"  -> IF IsSizer(ms, j) THEN << PT("cnt", m.t, nm, ind, 0, j) >>
                              ELSE << PT("val", m.t, nm, ind, 0, 0) >>
         [] m.f = "opt"    -> << PT("opt", m.t, nm, ind, 0, 0) >>
         [] m.f = "fixed"  -> IF m.t.k = "byte" THEN << PT("bytes", m.t, nm, ind, m.n, 0) >>
                              ELSE Copies(m.n, PT("val", m.t, nm, ind, 0, 0))
         [] m.f \in {"dyn", "lim"} -> << PT("cnt", Int(4), nm, ind, 0, j), PT("arr", m.t, nm, ind, 0, j) >>
         [] m.f = "ext"    -> << PT("arr", m.t, nm, ind, 0, m.c) >>
         [] m.f = "greedy" -> << PT("gre", m.t, nm, ind, 0, 0) >>

RECURSIVE MembersFrom(_, _, _)
MembersFrom(ms, j, ind) ==
    IF j > Len(ms) THEN <<>> ELSE MemberTasks(ms, j, ind) \o MembersFrom(ms, j + 1, ind)

Emit(line) == lines' = Append(lines, line)

PInit ==
    /\ gid \in 1..Len(Given)
    /\ ptodo = << PT("val", Ref(Len(Given[gid].env)), "", 0, 0, 0) >>
    /\ pframes = <<>> /\ wpos = 1 /\ lines = <<>> /\ pphase = "print"

Going == pphase = "print" /\ ptodo # <<>>

\* a struct: header line (unless it is the root), members one level deeper
PEnterStruct ==
    /\ Going /\ PTop.op = "val" /\ IsStructRef(env, PTop.t)
    /\ LET i == Base(env, PTop.t).i
           root == PTop.nm = ""
           inner == IF root THEN PTop.ind ELSE PTop.ind + 1
       IN /\ ptodo' = MembersFrom(env[i].ms, 1, inner)
                      \o << PT("close", Byte, IF root THEN "" ELSE "}", PTop.ind, 0, 0) >> \o PRest
          /\ pframes' = << [j \in 1..Len(env[i].ms) |-> 0] >> \o pframes
          /\ IF root THEN UNCHANGED lines ELSE Emit(Indent(PTop.ind) \o PTop.nm \o " {")
    /\ UNCHANGED <<gid, wpos, pphase>>

PClose ==
    /\ Going /\ PTop.op = "close"
    /\ IF PTop.nm = "" THEN UNCHANGED lines ELSE Emit(Indent(PTop.ind) \o "}")
    /\ ptodo' = PRest
    /\ pframes' = IF PTop.n = 1 THEN pframes ELSE Tail(pframes)
    /\ UNCHANGED <<gid, wpos, pphase>>

PScalar ==
    /\ Going /\ PTop.op = "val" /\ IsScalarRef(env, PTop.t) /\ HasEv /\ Ev.e = "int"
    /\ Emit(Indent(PTop.ind) \o PTop.nm \o ": " \o Dec(Ev.v, Base(env, PTop.t).s))
    /\ ptodo' = PRest /\ wpos' = wpos + 1
    /\ UNCHANGED <<gid, pframes, pphase>>

PEnum ==
    /\ Going /\ PTop.op = "val" /\ IsEnumRef(env, PTop.t) /\ HasEv /\ Ev.e = "enum"
    /\ Emit(Indent(PTop.ind) \o PTop.nm \o ": " \o EName(Base(env, PTop.t).i, Ev.n))
    /\ ptodo' = PRest /\ wpos' = wpos + 1
    /\ UNCHANGED <<gid, pframes, pphase>>

\* counters are not printed
PCounter ==
    /\ Going /\ PTop.op = "cnt" /\ HasEv /\ Ev.e = "len"
    /\ pframes' = << [Head(pframes) EXCEPT ![PTop.m] = Ev.n] >> \o Tail(pframes)
    /\ ptodo' = PRest /\ wpos' = wpos + 1
    /\ UNCHANGED <<gid, lines, pphase>>

\* array: every element under the field's name; bytes: one quoted string
PArray ==
    /\ Going /\ PTop.op = "arr"
    /\ LET n == Head(pframes)[PTop.m] IN
         ptodo' = (IF PTop.t.k = "byte" THEN << PT("bytes", PTop.t, PTop.nm, PTop.ind, n, 0) >>
                   ELSE Copies(n, PT("val", PTop.t, PTop.nm, PTop.ind, 0, 0))) \o PRest
    /\ UNCHANGED <<gid, pframes, wpos, lines, pphase>>

PGreedy ==
    /\ Going /\ PTop.op = "gre" /\ HasEv /\ Ev.e = "len"
    /\ ptodo' = (IF PTop.t.k = "byte" THEN << PT("bytes", PTop.t, PTop.nm, PTop.ind, Ev.n, 0) >>
                 ELSE Copies(Ev.n, PT("val", PTop.t, PTop.nm, PTop.ind, 0, 0))) \o PRest
    /\ wpos' = wpos + 1
    /\ UNCHANGED <<gid, pframes, lines, pphase>>

PBytes ==
    /\ Going /\ PTop.op = "bytes" /\ wpos + PTop.n - 1 <= Len(TW)
    /\ LET bs == [q \in 1..PTop.n |-> TW[wpos + q - 1].v[1]]
           \* quoting (Python's repr of bytes, which the C++ printer follows): double quotes when the text
           \* holds a single quote (39) and no double quote (34), else single quotes with single quotes escaped
           dq == (\E q \in 1..PTop.n : bs[q] = 39) /\ ~(\E q \in 1..PTop.n : bs[q] = 34)
           quote == IF dq THEN "\"" ELSE "'"
           txt(b) == IF ~dq /\ b = 39 THEN "\\'" ELSE ByteText(b)
       IN Emit(Indent(PTop.ind) \o PTop.nm \o ": " \o quote \o Concat([q \in 1..PTop.n |-> txt(bs[q])]) \o quote)
    /\ ptodo' = PRest /\ wpos' = wpos + PTop.n
    /\ UNCHANGED <<gid, pframes, pphase>>

\* absent optionals are omitted
POpt ==
    /\ Going /\ PTop.op = "opt" /\ HasEv /\ Ev.e = "opt"
    /\ ptodo' = (IF Ev.n = 1 THEN << PT("val", PTop.t, PTop.nm, PTop.ind, 0, 0) >> ELSE <<>>) \o PRest
    /\ wpos' = wpos + 1
    /\ UNCHANGED <<gid, pframes, lines, pphase>>

\* union: only the discriminated arm, inside the union's block
PDisc ==
    /\ Going /\ PTop.op = "val" /\ IsUnionRef(env, PTop.t) /\ HasEv /\ Ev.e = "arm"
    /\ LET i == Base(env, PTop.t).i
           root == PTop.nm = ""
           inner == IF root THEN PTop.ind ELSE PTop.ind + 1
       IN /\ ptodo' = << PT("val", env[i].arms[Ev.n].t, AName(Ev.n), inner, 0, 0),
                         PT("close", Byte, IF root THEN "" ELSE "}", PTop.ind, 1, 0) >> \o PRest
          /\ IF root THEN UNCHANGED lines ELSE Emit(Indent(PTop.ind) \o PTop.nm \o " {")
    /\ wpos' = wpos + 1
    /\ UNCHANGED <<gid, pframes, pphase>>

PFinish ==
    /\ pphase = "print" /\ ptodo = <<>> /\ wpos = Len(TW) + 1
    /\ pphase' = "done"
    /\ UNCHANGED <<gid, ptodo, pframes, wpos, lines>>

PNext == PEnterStruct \/ PClose \/ PScalar \/ PEnum \/ PCounter \/ PArray \/ PGreedy \/ PBytes
         \/ POpt \/ PDisc \/ PFinish

PSpec == PInit /\ [][PNext]_pvars

PVector == [gid |-> gid, lines |-> lines]
PDump == pphase = "done" => PrintT("PVEC " \o ToJson(PVector))
=============================================================================
