------------------------------- MODULE Schema -------------------------------
(***************************************************************************)
(* Abstract prophy schemas: type references, struct members, type          *)
(* definitions, and the composability (legality) rules of docs/schema.rst  *)
(* and docs/encoding.rst.  Definitions only - no variables.                *)
(*                                                                         *)
(* Every record of one sort has the same field set so that TLC can         *)
(* compare, fingerprint and JSON-serialise values of mixed variants.       *)
(*                                                                         *)
(* An environment `env` is a sequence of type definitions; definition i    *)
(* may refer only to definitions j < i (prophy has no forward references). *)
(***************************************************************************)
EXTENDS Naturals, Sequences, FiniteSets

FIXED     == 0   \* stiffness ("kind"): size on wire known from the schema
DYNAMIC   == 1   \* size depends on counters inside the message
UNLIMITED == 2   \* size known only from the length of the whole message

Max(a, b) == IF a >= b THEN a ELSE b
Min(a, b) == IF a <= b THEN a ELSE b

(* ---- type references -------------------------------------------------- *)
\* s = 1 for signed integers (irrelevant on the wire, kept for rendering)
Int(w)  == [k |-> "int",  w |-> w, i |-> 0, s |-> 0]
SInt(w) == [k |-> "int",  w |-> w, i |-> 0, s |-> 1]
Flt(w)  == [k |-> "flt",  w |-> w, i |-> 0, s |-> 0]
Byte    == [k |-> "byte", w |-> 1, i |-> 0, s |-> 0]
Ref(i)  == [k |-> "ref",  w |-> 0, i |-> i, s |-> 0]

(* ---- struct members --------------------------------------------------- *)
\* f: form; t: type; n: fixed size / limit; c: index of the sizer member
Mem(f, t, n, c) == [f |-> f, t |-> t, n |-> n, c |-> c]
Plain(t)    == Mem("plain",  t, 0, 0)   \* T x;
Opt(t)      == Mem("opt",    t, 0, 0)   \* T* x;
Fixed(t, n) == Mem("fixed",  t, n, 0)   \* T x[n];
Dyn(t)      == Mem("dyn",    t, 0, 0)   \* T x<>;      u32 counter + elements
Lim(t, n)   == Mem("lim",    t, n, 0)   \* T x<n>;     u32 counter + n slots
Greedy(t)   == Mem("greedy", t, 0, 0)   \* T x<...>;   elements to the end
Ext(t, c)   == Mem("ext",    t, 0, c)   \* T x<@c>;    sized by member c
LimX(t, n, c) == Mem("limx", t, n, c)   \* n slots, counted by member c (isar / patch "limited";
                                        \* prophy text can only write it with an adjacent u32 counter: T x<n>)

\* bound SHIFT (Python runtime: array(T, bound=.., shift=s)): the counter on the wire
\* is length + s.  Only arrays that are bound and have no size can be shifted; for
\* those forms the otherwise unused field n holds the shift.
DynS(t, s)    == Mem("dyn", t, s, 0)
ExtS(t, c, s) == Mem("ext", t, s, c)
ShiftOf(m) == IF m.f \in {"dyn", "ext"} THEN m.n ELSE 0

ArrayForms == {"fixed", "dyn", "lim", "greedy", "ext", "limx"}

(* ---- type definitions ------------------------------------------------- *)
Arm(d, t) == [d |-> d, t |-> t]
StructDef(ms)  == [k |-> "struct",  ms |-> ms,   arms |-> <<>>, vals |-> <<>>, t |-> Byte]
UnionDef(arms) == [k |-> "union",   ms |-> <<>>, arms |-> arms, vals |-> <<>>, t |-> Byte]
EnumDef(vals)  == [k |-> "enum",    ms |-> <<>>, arms |-> <<>>, vals |-> vals, t |-> Byte]
TypedefDef(t)  == [k |-> "typedef", ms |-> <<>>, arms |-> <<>>, vals |-> <<>>, t |-> t]

(* ---- resolving typedef chains ----------------------------------------- *)
RECURSIVE Base(_, _)
Base(env, t) ==
    IF t.k = "ref" /\ env[t.i].k = "typedef" THEN Base(env, env[t.i].t) ELSE t

IsScalarRef(env, t) == Base(env, t).k \in {"int", "flt", "byte"}
IsIntRef(env, t)    == Base(env, t).k = "int"
IsEnumRef(env, t)   == LET b == Base(env, t) IN b.k = "ref" /\ env[b.i].k = "enum"
IsStructRef(env, t) == LET b == Base(env, t) IN b.k = "ref" /\ env[b.i].k = "struct"
IsUnionRef(env, t)  == LET b == Base(env, t) IN b.k = "ref" /\ env[b.i].k = "union"

(* ---- stiffness -------------------------------------------------------- *)
\* `kinds` is the sequence of already computed kinds of env[1..]
RefKind(kinds, t) == IF t.k = "ref" THEN kinds[t.i] ELSE FIXED

MemberIsDynamicField(kinds, m) ==
    \/ m.f \in {"dyn", "ext", "greedy"}
    \/ m.f = "plain" /\ RefKind(kinds, m.t) # FIXED

MemberIsUnlimited(kinds, m) ==
    \/ m.f = "greedy"
    \/ m.f = "plain" /\ RefKind(kinds, m.t) = UNLIMITED

StructKind(kinds, ms) ==
    IF ms # <<>> /\ MemberIsUnlimited(kinds, ms[Len(ms)]) THEN UNLIMITED
    ELSE IF \E j \in 1..Len(ms) : MemberIsDynamicField(kinds, ms[j]) THEN DYNAMIC
    ELSE FIXED

(* ---- legality: one operator per documented composability rule ---------- *)
\* Each rule is a predicate on (env, kinds, ms) for a struct member list ms.

\* "Greedy array can be used only in the last field of struct. Such struct
\*  may also be only the last field of any other struct."
RuleUnlimitedLast(kinds, ms) ==
    \A j \in 1..Len(ms) : MemberIsUnlimited(kinds, ms[j]) => j = Len(ms)

\* "Dynamic struct may not be held in fixed or limited array."
RuleNoDynInSizedArray(kinds, ms) ==
    \A j \in 1..Len(ms) :
        ms[j].f \in {"fixed", "lim", "limx"} => RefKind(kinds, ms[j].t) = FIXED

\* "Unlimited (greedy) struct may not be held in any array."
RuleNoUnlimitedInArray(kinds, ms) ==
    \A j \in 1..Len(ms) :
        ms[j].f \in ArrayForms => RefKind(kinds, ms[j].t) # UNLIMITED

\* "Optional field may not contain unlimited nor dynamic struct."
RuleNoDynInOptional(kinds, ms) ==
    \A j \in 1..Len(ms) : ms[j].f = "opt" => RefKind(kinds, ms[j].t) = FIXED

\* sizer: a non-optional integer member placed before the array it sizes
RuleSizer(env, ms) ==
    \A j \in 1..Len(ms) : ms[j].f \in {"ext", "limx"} =>
        /\ ms[j].c \in 1..(j - 1)
        /\ ms[ms[j].c].f = "plain"
        /\ IsIntRef(env, ms[ms[j].c].t)

RulePositiveSize(ms) ==
    \A j \in 1..Len(ms) : ms[j].f \in {"fixed", "lim", "limx"} => ms[j].n >= 1

\* bytes exist only as arrays; there is no optional array / optional bytes
RuleByteOnlyInArray(ms) ==
    \A j \in 1..Len(ms) : ms[j].t.k = "byte" => ms[j].f \in ArrayForms

\* "Different bound shifts are unsupported in externally sized arrays"
RuleSameShift(ms) ==
    \A a, b \in 1..Len(ms) :
        (ms[a].f \in {"ext", "limx"} /\ ms[b].f \in {"ext", "limx"} /\ ms[a].c = ms[b].c) => ShiftOf(ms[a]) = ShiftOf(ms[b])

RuleNonEmpty(ms) == ms # <<>>

LegalStruct(env, kinds, ms) ==
    /\ RuleNonEmpty(ms)
    /\ RuleUnlimitedLast(kinds, ms)
    /\ RuleNoDynInSizedArray(kinds, ms)
    /\ RuleNoUnlimitedInArray(kinds, ms)
    /\ RuleNoDynInOptional(kinds, ms)
    /\ RuleSizer(env, ms)
    /\ RulePositiveSize(ms)
    /\ RuleByteOnlyInArray(ms)
    /\ RuleSameShift(ms)

\* names of the struct rules an (illegal) member list violates
StructViolations(env, kinds, ms) ==
    (IF RuleNonEmpty(ms) THEN {} ELSE {"non-empty"})
    \cup (IF RuleUnlimitedLast(kinds, ms) THEN {} ELSE {"unlimited-only-last"})
    \cup (IF RuleNoDynInSizedArray(kinds, ms) THEN {} ELSE {"no-dynamic-in-fixed-or-limited-array"})
    \cup (IF RuleNoUnlimitedInArray(kinds, ms) THEN {} ELSE {"no-unlimited-in-array"})
    \cup (IF RuleNoDynInOptional(kinds, ms) THEN {} ELSE {"no-dynamic-in-optional"})
    \cup (IF RuleSizer(env, ms) THEN {} ELSE {"sizer-before-array-integer-not-optional"})
    \cup (IF RulePositiveSize(ms) THEN {} ELSE {"positive-array-size"})
    \cup (IF RuleByteOnlyInArray(ms) THEN {} ELSE {"bytes-only-as-array"})
    \cup (IF RuleSameShift(ms) THEN {} ELSE {"same-shift-per-sizer"})

\* "Union arm may not contain unlimited nor dynamic struct, nor array."
RuleArmFixed(kinds, arms) ==
    \A a \in 1..Len(arms) : RefKind(kinds, arms[a].t) = FIXED /\ arms[a].t.k # "byte"
RuleUniqueDiscriminators(arms) ==
    \A a, b \in 1..Len(arms) : arms[a].d = arms[b].d => a = b
LegalUnion(kinds, arms) ==
    /\ arms # <<>>
    /\ RuleArmFixed(kinds, arms)
    /\ RuleUniqueDiscriminators(arms)

UnionViolations(kinds, arms) ==
    (IF arms # <<>> THEN {} ELSE {"non-empty"})
    \cup (IF RuleArmFixed(kinds, arms) THEN {} ELSE {"union-arm-fixed"})
    \cup (IF RuleUniqueDiscriminators(arms) THEN {} ELSE {"unique-discriminators"})

LegalEnum(vals) ==
    /\ vals # <<>>
    /\ \A a, b \in 1..Len(vals) : vals[a] = vals[b] => a = b

=============================================================================
