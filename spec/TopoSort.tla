------------------------------ MODULE TopoSort ------------------------------
(***************************************************************************)
(* Definition ordering (C15) and its termination (C13).                    *)
(*                                                                         *)
(* Abstract requirement (the property): the output lists every definition  *)
(* exactly once and after everything it depends on.                        *)
(*                                                                         *)
(* RotSort: the rotation algorithm prophyc uses for front-ends whose       *)
(* definitions may come in any order - at position `index`, while the      *)
(* definition there has a dependency that is not yet placed, the first     *)
(* occurrence of that dependency behind `index` is moved to `index`.       *)
(* Which unplaced dependency is taken first is left open (any), so every   *)
(* order of a definition's dependency list is covered.                     *)
(*                                                                         *)
(* TLC checks, for EVERY graph on N nodes and EVERY input order:           *)
(*   safety   - at termination the result is a dependency-ordered          *)
(*              permutation of the input (refinement of the abstract spec) *)
(*   liveness - on acyclic graphs the algorithm terminates;                *)
(*   and (Cyclic config) that on graphs with a cycle or a self reference   *)
(*   it does NOT terminate: the design-level form of the C13 hang.         *)
(***************************************************************************)
EXTENDS Naturals, Sequences, FiniteSets, TLC, Json

CONSTANTS N, Acyclic   \* number of definitions; TRUE: only DAGs are explored

Node == 1..N

VARIABLES deps, input, nodes, index, known, phase
tvars == <<deps, input, nodes, index, known, phase>>

Perms == {s \in [1..N -> Node] : \A i, j \in 1..N : s[i] = s[j] => i = j}

\* acyclic: there is a ranking that every dependency edge decreases
IsDag(d) == \E r \in [Node -> 1..N] : \A x \in Node : \A y \in d[x] : r[y] < r[x]

TInit ==
    /\ deps \in [Node -> SUBSET Node]
    /\ (Acyclic => IsDag(deps))
    /\ (~Acyclic => ~IsDag(deps))
    /\ input \in Perms
    /\ nodes = input
    /\ index = 1
    /\ known = {}
    /\ phase = "run"

PosOf(s, x, from) ==      \* first position >= from holding x, 0 if none
    IF \E p \in from..Len(s) : s[p] = x
    THEN CHOOSE p \in from..Len(s) : s[p] = x /\ \A q \in from..(p - 1) : s[q] # x
    ELSE 0

MoveTo(s, from, to) ==    \* s.insert(to, s.pop(from)), from > to
    [p \in 1..Len(s) |-> IF p < to \/ p > from THEN s[p] ELSE IF p = to THEN s[from] ELSE s[p - 1]]

\* the definition at `index` has all its dependencies placed: accept it
Place ==
    /\ phase = "run"
    /\ deps[nodes[index]] \subseteq known
    /\ known' = known \cup {nodes[index]}
    /\ IF index = N THEN phase' = "done" /\ index' = index ELSE phase' = phase /\ index' = index + 1
    /\ UNCHANGED <<deps, input, nodes>>

\* pull one unplaced dependency to the front
Rotate(d) ==
    /\ phase = "run"
    /\ d \in deps[nodes[index]] /\ d \notin known
    /\ LET p == PosOf(nodes, d, index + 1) IN
         nodes' = IF p = 0 THEN nodes ELSE MoveTo(nodes, p, index)
    /\ UNCHANGED <<deps, input, index, known, phase>>

TNext == Place \/ \E d \in Node : Rotate(d)
TSpec == TInit /\ [][TNext]_tvars /\ WF_tvars(TNext)

(* ---- abstract specification and properties ------------------------------ *)
IsPermutationOfInput == Len(nodes) = N /\ {nodes[p] : p \in 1..N} = Node
DependencyOrdered(s) == \A p \in 1..Len(s) : deps[s[p]] \subseteq {s[q] : q \in 1..(p - 1)}

\* refinement of the abstract spec: the answer is one of its allowed answers
ResultCorrect == phase = "done" => IsPermutationOfInput /\ DependencyOrdered(nodes)
\* nothing is ever lost or duplicated on the way
AlwaysPermutation == IsPermutationOfInput
\* everything before index is placed and dependency-ordered
PrefixPlaced == known = {nodes[p] : p \in 1..(index - 1)} \cup (IF phase = "done" THEN {nodes[N]} ELSE {})

Termination == <>(phase = "done")
\* on a graph with a cycle the algorithm must NOT be claimed to terminate:
\* TLC is expected to report a violation (a lasso) of this property
TerminatesOnCycles == <>(phase = "done")

SeqOfSet(S) == LET n == Cardinality(S) IN
    [i \in 1..n |-> CHOOSE x \in S : Cardinality({y \in S : y < x}) = i - 1]
TDump == phase = "done" =>
    PrintT("TOPO " \o ToJson([deps |-> [x \in Node |-> SeqOfSet(deps[x])], input |-> input, result |-> nodes]))
=============================================================================
