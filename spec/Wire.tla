-------------------------------- MODULE Wire --------------------------------
(***************************************************************************)
(* The prophy wire format as an explicit state machine.                    *)
(*                                                                         *)
(* Phase "schema": a schema is constructed member by member on top of a    *)
(*   curated environment `Inner` (actions AddMember / CloseType); every    *)
(*   constructed environment satisfies the composability rules of Schema.  *)
(* Phase "enc": the ENCODER machine puts one message of the root type on   *)
(*   the wire, one action per kind of thing that is emitted; every         *)
(*   structural choice (array length, optional presence, union arm,        *)
(*   enumerator) is an action parameter so that TLC explores all of them   *)
(*   and a trace specification can bind them to recorded events.  Both     *)
(*   byte orders are produced side by side (outL, outB) together with the  *)
(*   ROLE of every byte.                                                   *)
(* Phase "dec": the DECODER machine reads `inp` with cursor `pos`, with an *)
(*   explicit bounds check before every read and a total verdict.          *)
(*                                                                         *)
(* Source of the rules: docs/encoding.rst, docs/schema.rst (not the code). *)
(***************************************************************************)
EXTENDS Layout, TLC

CONSTANTS
    Inner,        \* curated environment the constructed types may refer to
    MaxLen,       \* largest array length explored
    MaxMembers,   \* members per constructed struct
    MaxTypes,     \* constructed types per behaviour
    Scalars,      \* scalar type references offered to the constructor
    Forms,        \* member forms offered to the constructor
    PayloadHigh,  \* FALSE: payload bytes 1..120; TRUE: 128..247 (sign bits set)
    FixN, LimN    \* extents used for constructed fixed / limited arrays

VARIABLES
    phase,   \* "schema" | "enc" | "done"
    env,     \* Seq(TypeDef)
    lay,     \* Seq([size, align, kind]) parallel to env
    cur,     \* members of the struct under construction
    root,    \* index of the type being encoded
    todo,    \* stack of pending encoder tasks (head = next)
    frames,  \* stack of struct instances: member index -> chosen array length
    outL,    \* little-endian image
    outB,    \* big-endian image
    role,    \* role of every byte: <<kind, width, byte index (LE order)>>
    walk,    \* the structural choices and payloads, in wire order
    k,       \* number of scalars emitted so far (selects the payload)
    gend,    \* 0, or 1 + offset at which the greedy array's elements ended
    ust      \* 0, or 1 + offset at which the ROOT struct's unlimited member starts

svars == <<env, lay, cur, root>>
evars == <<todo, frames, outL, outB, role, walk, k, gend, ust>>
vars  == <<phase, env, lay, cur, root, todo, frames, outL, outB, role, walk, k, gend, ust>>

(* ------------------------------------------------------------------------ *)
(* Schema construction                                                      *)
(* ------------------------------------------------------------------------ *)
ElemTypes == Scalars \cup {Ref(i) : i \in 1..Len(env)}

Alphabet ==
    {m \in
        {Plain(t) : t \in ElemTypes} \cup {Opt(t) : t \in ElemTypes}
        \cup {Fixed(t, FixN) : t \in ElemTypes \cup {Byte}}
        \cup {Dyn(t) : t \in ElemTypes \cup {Byte}}
        \cup {Lim(t, LimN) : t \in ElemTypes \cup {Byte}}
        \cup {Greedy(t) : t \in ElemTypes \cup {Byte}}
        \cup {Ext(t, c) : t \in ElemTypes \cup {Byte}, c \in 1..Len(cur)}
     : m.f \in Forms}

SchemaInit ==
    /\ phase = "schema"
    /\ env = Inner
    /\ lay = LayAll(Inner)
    /\ cur = <<>>
    /\ root = 0

AddMember(m) ==
    /\ phase = "schema"
    /\ Len(cur) < MaxMembers
    /\ LegalStruct(env, Kinds(lay), Append(cur, m))
    /\ cur' = Append(cur, m)
    /\ UNCHANGED <<phase, env, lay, root, evars>>

\* finish the struct and start another one that may refer to it
CloseAndContinue ==
    /\ phase = "schema"
    /\ cur # <<>>
    /\ Len(env) - Len(Inner) < MaxTypes - 1
    /\ env' = Append(env, StructDef(cur))
    /\ lay' = Append(lay, StructLay(lay, cur))
    /\ cur' = <<>>
    /\ UNCHANGED <<phase, root, evars>>

\* the members collected so far can also be closed as a UNION (arms = the
\* members, discriminators 1, 4, 7, ...) if all of them are plain and fixed
UnionOf(ms) == UnionDef([j \in 1..Len(ms) |-> Arm(3 * j - 2, ms[j].t)])
CanBeUnion(ms) ==
    /\ ms # <<>> /\ Len(ms) <= 3
    /\ \A j \in 1..Len(ms) : ms[j].f = "plain"
    /\ LegalUnion(Kinds(lay), UnionOf(ms).arms)

CloseAndContinueAsUnion ==
    /\ phase = "schema"
    /\ CanBeUnion(cur)
    /\ Len(env) - Len(Inner) < MaxTypes - 1
    /\ env' = Append(env, UnionOf(cur))
    /\ lay' = Append(lay, UnionLay(lay, UnionOf(cur).arms))
    /\ cur' = <<>>
    /\ UNCHANGED <<phase, root, evars>>

\* s: for "cnt" tasks the bound SHIFT (the wire carries length + s); 0 elsewhere
TkS(op, t, a, n, m, sh) == [op |-> op, t |-> t, a |-> a, n |-> n, m |-> m, s |-> sh]
Tk(op, t, a, n, m) == TkS(op, t, a, n, m, 0)
ValTask(t) == Tk("val", t, 0, 0, 0)

\* finish the struct and encode a message of it
CloseType ==
    /\ phase = "schema"
    /\ cur # <<>>
    /\ env' = Append(env, StructDef(cur))
    /\ lay' = Append(lay, StructLay(lay, cur))
    /\ cur' = <<>>
    /\ root' = Len(env) + 1
    /\ phase' = "enc"
    /\ todo' = << ValTask(Ref(Len(env) + 1)) >>
    /\ UNCHANGED <<frames, outL, outB, role, walk, k, gend, ust>>

\* ... or encode a message of the union built from the collected members
CloseTypeAsUnion ==
    /\ phase = "schema"
    /\ CanBeUnion(cur)
    /\ env' = Append(env, UnionOf(cur))
    /\ lay' = Append(lay, UnionLay(lay, UnionOf(cur).arms))
    /\ cur' = <<>>
    /\ root' = Len(env) + 1
    /\ phase' = "enc"
    /\ todo' = << ValTask(Ref(Len(env) + 1)) >>
    /\ UNCHANGED <<frames, outL, outB, role, walk, k, gend, ust>>

(* ------------------------------------------------------------------------ *)
(* Encoder                                                                  *)
(* ------------------------------------------------------------------------ *)
Pow256(j) == CASE j = 0 -> 1 [] j = 1 -> 256 [] j = 2 -> 65536 [] j = 3 -> 16777216
\* little-endian bytes of a natural n < 2^31 in w bytes
IntBytes(n, w) == [j \in 1..w |-> IF j <= 4 THEN (n \div Pow256(j - 1)) % 256 ELSE 0]
Reverse(s) == [j \in 1..Len(s) |-> s[Len(s) + 1 - j]]
Zeros(n) == [j \in 1..n |-> 0]

\* payload of the q-th scalar: non-zero, pairwise distinct bytes, most
\* significant byte never 0x7f/0xff (no NaN bit patterns for floats)
Payload(q, w) == [j \in 1..w |-> ((q * 29 + j * 7) % 120) + (IF PayloadHigh THEN 128 ELSE 1)]

RoleSeq(kind, w) == [j \in 1..w |-> <<kind, w, j>>]
PadRole(n) == [j \in 1..n |-> <<"p", 1, 1>>]

Ev(e, n, v) == [e |-> e, n |-> n, v |-> v]

Top == Head(todo)
Rest == Tail(todo)

\* emit the bytes of one scalar-like item (given in little-endian order)
Emit(bytes, kind) ==
    /\ outL' = outL \o bytes
    /\ outB' = outB \o Reverse(bytes)
    /\ role' = role \o RoleSeq(kind, Len(bytes))
EmitZeros(n) ==
    /\ outL' = outL \o Zeros(n)
    /\ outB' = outB \o Zeros(n)
    /\ role' = role \o PadRole(n)

Copies(n, x) == [j \in 1..n |-> x]

\* a sizer that counts an externally sized LIMITED array cannot exceed its limit
SizerLimit(ms, j) ==
    LET L == {ms[q].n : q \in {q \in 1..Len(ms) : ms[q].f = "limx" /\ ms[q].c = j}} IN
    IF L = {} THEN 0 ELSE CHOOSE x \in L : \A y \in L : x <= y

\* the shift of the arrays a sizer member counts (legal schemas: all the same)
SizerShift(ms, j) ==
    LET Sh == {ShiftOf(ms[q]) : q \in {q \in 1..Len(ms) : ms[q].f \in {"ext", "limx"} /\ ms[q].c = j}} IN
    IF Sh = {} THEN 0 ELSE CHOOSE x \in Sh : TRUE

PartTasks(ms, p) ==
    LET m == ms[p.j] IN
    CASE p.r = "val"    -> << ValTask(m.t) >>
      [] p.r = "sizer"  -> << TkS("cnt", m.t, SizerLimit(ms, p.j), Base(env, m.t).w, p.j, SizerShift(ms, p.j)) >>
      [] p.r = "opt"    -> << Tk("opt", m.t, p.a, 0, 0) >>
      [] p.r = "fixed"  -> Copies(m.n, ValTask(m.t))
      \* own u32 counter: of a limited array (limit m.n) or of a dynamic array (shift m.n)
      [] p.r = "cnt"    -> << TkS("cnt", Int(4), IF m.f = "lim" THEN m.n ELSE 0, 4, p.j, ShiftOf(m)) >>
      [] p.r = "arr"    -> << Tk("arr", m.t, 0, IF m.f \in {"lim", "limx"} THEN m.n ELSE 0,
                                 IF m.f \in {"ext", "limx"} THEN m.c ELSE p.j) >>
      [] p.r = "greedy" -> << Tk("gre", m.t, 0, 0, 0) >>

RECURSIVE TasksFrom(_, _, _)
TasksFrom(ms, ps, p) ==
    IF p > Len(ps) THEN <<>>
    ELSE << Tk("pad", Byte, EffAlign(ps, p), 0, 0) >>
         \o (IF p = Len(ps) /\ MemberIsUnlimited(Kinds(lay), ms[ps[p].j]) THEN << Tk("umark", Byte, 0, 0, 0) >> ELSE <<>>)
         \o PartTasks(ms, ps[p]) \o TasksFrom(ms, ps, p + 1)

StructTasks(i) ==
    LET ms == env[i].ms
        ps == Parts(lay, ms)
    IN TasksFrom(ms, ps, 1) \o << Tk("leave", Byte, lay[i].align, 0, 0) >>

EncEnterStruct ==
    /\ phase = "enc" /\ todo # <<>> /\ Top.op = "val" /\ IsStructRef(env, Top.t)
    /\ LET i == Base(env, Top.t).i IN
         /\ todo' = StructTasks(i) \o Rest
         /\ frames' = << [j \in 1..Len(env[i].ms) |-> 0] >> \o frames
    /\ UNCHANGED <<phase, svars, outL, outB, role, walk, k, gend, ust>>

\* end of a struct: zero padding up to the struct alignment
EncLeave ==
    /\ phase = "enc" /\ todo # <<>> /\ Top.op = "leave"
    /\ EmitZeros(PadLen(Len(outL), Top.a))
    /\ todo' = Rest
    /\ frames' = Tail(frames)
    /\ UNCHANGED <<phase, svars, walk, k, gend, ust>>

\* padding before a part, up to its effective alignment (incl. block rule)
EncPad ==
    /\ phase = "enc" /\ todo # <<>> /\ Top.op = "pad"
    /\ EmitZeros(PadLen(Len(outL), Top.a))
    /\ todo' = Rest
    /\ UNCHANGED <<phase, svars, frames, walk, k, gend, ust>>

\* zero fill up to an absolute offset (unused limited-array slots, absent
\* optional, short union arm)
EncZero ==
    /\ phase = "enc" /\ todo # <<>> /\ Top.op = "zto"
    /\ EmitZeros(Top.a - Len(outL))
    /\ todo' = Rest
    /\ UNCHANGED <<phase, svars, frames, walk, k, gend, ust>>

\* a scalar with a given payload (little-endian byte tuple)
EncScalarV(bytes) ==
    /\ phase = "enc" /\ todo # <<>> /\ Top.op = "val" /\ IsScalarRef(env, Top.t)
    /\ Len(bytes) = Base(env, Top.t).w
    /\ Emit(bytes, IF Base(env, Top.t).k = "byte" THEN "b" ELSE "s")
    /\ walk' = Append(walk, Ev("int", 0, bytes))
    /\ k' = k + 1
    /\ todo' = Rest
    /\ UNCHANGED <<phase, svars, frames, gend, ust>>

\* generative use: the q-th scalar carries the fixed pattern Payload(q, w)
EncScalar ==
    /\ phase = "enc" /\ todo # <<>> /\ Top.op = "val" /\ IsScalarRef(env, Top.t)
    /\ EncScalarV(Payload(k, Base(env, Top.t).w))

EncEnum(j) ==
    /\ phase = "enc" /\ todo # <<>> /\ Top.op = "val" /\ IsEnumRef(env, Top.t)
    /\ LET vals == env[Base(env, Top.t).i].vals IN
         /\ j \in 1..Len(vals)
         /\ Emit(IntBytes(vals[j], 4), "e")
    /\ walk' = Append(walk, Ev("enum", j, <<>>))
    /\ todo' = Rest
    /\ UNCHANGED <<phase, svars, frames, k, gend, ust>>

\* array counter (own u32 delimiter, or the external sizer member)
EncCounter(n) ==
    /\ phase = "enc" /\ todo # <<>> /\ Top.op = "cnt"
    /\ n \in 0..(IF Top.a > 0 THEN Min(Top.a, MaxLen) ELSE MaxLen)
    /\ Emit(IntBytes(n + Top.s, Top.n), "c")
    /\ frames' = << [Head(frames) EXCEPT ![Top.m] = n] >> \o Tail(frames)
    /\ walk' = Append(walk, Ev("len", n, <<>>))
    /\ todo' = Rest
    /\ UNCHANGED <<phase, svars, k, gend, ust>>

\* trace validation: the recorded length may exceed the exploration bound MaxLen
EncCounterAny(n) ==
    /\ phase = "enc" /\ todo # <<>> /\ Top.op = "cnt"
    /\ (Top.a > 0 => n <= Top.a)
    /\ Emit(IntBytes(n + Top.s, Top.n), "c")
    /\ frames' = << [Head(frames) EXCEPT ![Top.m] = n] >> \o Tail(frames)
    /\ walk' = Append(walk, Ev("len", n, <<>>))
    /\ todo' = Rest
    /\ UNCHANGED <<phase, svars, k, gend, ust>>

\* counted array: n elements; a limited array's slot is zero-filled to its
\* full fixed size
EncArray ==
    /\ phase = "enc" /\ todo # <<>> /\ Top.op = "arr"
    /\ LET n == Head(frames)[Top.m]
           fill == IF Top.n > 0
                   THEN << Tk("zto", Byte, Len(outL) + Top.n * TSize(lay, Top.t), 0, 0) >>
                   ELSE <<>>
       IN todo' = Copies(n, ValTask(Top.t)) \o fill \o Rest
    /\ UNCHANGED <<phase, svars, frames, outL, outB, role, walk, k, gend, ust>>

\* greedy array: no counter, any number of elements to the end
EncGreedy(n) ==
    /\ phase = "enc" /\ todo # <<>> /\ Top.op = "gre"
    /\ n \in 0..MaxLen
    /\ todo' = Copies(n, ValTask(Top.t)) \o << Tk("gend", Byte, 0, 0, 0) >> \o Rest
    /\ walk' = Append(walk, Ev("len", n, <<>>))
    /\ UNCHANGED <<phase, svars, frames, outL, outB, role, k, gend, ust>>

EncGreedyAny(n) ==
    /\ phase = "enc" /\ todo # <<>> /\ Top.op = "gre"
    /\ todo' = Copies(n, ValTask(Top.t)) \o << Tk("gend", Byte, 0, 0, 0) >> \o Rest
    /\ walk' = Append(walk, Ev("len", n, <<>>))
    /\ UNCHANGED <<phase, svars, frames, outL, outB, role, k, gend, ust>>

\* marks where the greedy array's elements ended (no bytes emitted)
EncGreedyEnd ==
    /\ phase = "enc" /\ todo # <<>> /\ Top.op = "gend"
    /\ gend' = Len(outL) + 1
    /\ todo' = Rest
    /\ UNCHANGED <<phase, svars, frames, outL, outB, role, walk, k, ust>>

\* optional: u32 flag, then either padding to max(4, align T) and the value,
\* or zeroes "up to size"
EncOptFlag(present) ==
    /\ phase = "enc" /\ todo # <<>> /\ Top.op = "opt"
    /\ present \in {0, 1}
    /\ Emit(IntBytes(present, 4), "f")
    /\ todo' = (IF present = 1
                THEN << Tk("pad", Byte, Top.a, 0, 0), ValTask(Top.t) >>
                ELSE << Tk("zto", Byte, Len(outL) + Top.a + TSize(lay, Top.t), 0, 0) >>)
               \o Rest
    /\ walk' = Append(walk, Ev("opt", present, <<>>))
    /\ UNCHANGED <<phase, svars, frames, k, gend, ust>>

\* union: u32 discriminator, arm at offset `alignment`, zero fill to the
\* union's fixed size
EncDisc(a) ==
    /\ phase = "enc" /\ todo # <<>> /\ Top.op = "val" /\ IsUnionRef(env, Top.t)
    /\ LET i == Base(env, Top.t).i IN
         /\ a \in 1..Len(env[i].arms)
         /\ Emit(IntBytes(env[i].arms[a].d, 4), "d")
         /\ todo' = << Tk("pad", Byte, lay[i].align, 0, 0),
                       ValTask(env[i].arms[a].t),
                       Tk("zto", Byte, Len(outL) + lay[i].size, 0, 0) >> \o Rest
    /\ walk' = Append(walk, Ev("arm", a, <<>>))
    /\ UNCHANGED <<phase, svars, frames, k, gend, ust>>

\* notes where the root struct's unlimited member starts (C09: the address
\* the raw swap returns for a message with a greedy tail); emits nothing
EncUMark ==
    /\ phase = "enc" /\ todo # <<>> /\ Top.op = "umark"
    /\ ust' = IF Len(frames) = 1 THEN Len(outL) + 1 ELSE ust
    /\ todo' = Rest
    /\ UNCHANGED <<phase, svars, frames, outL, outB, role, walk, k, gend>>

EncFinish ==
    /\ phase = "enc" /\ todo = <<>>
    /\ phase' = "done"
    /\ UNCHANGED <<svars, evars>>

EncNext ==
    \/ EncEnterStruct \/ EncLeave \/ EncPad \/ EncZero \/ EncScalar
    \/ \E j \in 1..8 : EncEnum(j)
    \/ \E n \in 0..MaxLen : EncCounter(n)
    \/ EncArray
    \/ \E n \in 0..MaxLen : EncGreedy(n)
    \/ EncGreedyEnd \/ EncUMark
    \/ \E p \in {0, 1} : EncOptFlag(p)
    \/ \E a \in 1..8 : EncDisc(a)
    \/ EncFinish

Init ==
    /\ SchemaInit
    /\ todo = <<>> /\ frames = <<>> /\ outL = <<>> /\ outB = <<>> /\ role = <<>>
    /\ walk = <<>> /\ k = 1 /\ gend = 0 /\ ust = 0

Next ==
    \/ \E m \in Alphabet : AddMember(m)
    \/ CloseAndContinue \/ CloseAndContinueAsUnion
    \/ CloseType \/ CloseTypeAsUnion
    \/ EncNext

Spec == Init /\ [][Next]_vars

(* ------------------------------------------------------------------------ *)
(* Properties of the format (theorems of the rules, checked by TLC)         *)
(* ------------------------------------------------------------------------ *)
TypeOK ==
    /\ phase \in {"schema", "enc", "done"}
    /\ Len(outL) = Len(outB) /\ Len(outL) = Len(role)

\* every constructed environment is legal and its layout is well-formed
SchemaLegal ==
    /\ Len(lay) = Len(env)
    /\ SizeMultipleOfAlign(env, lay)
    /\ KindMonotone(env, lay)
    /\ AlignPow2(lay)

\* C01: "every scalar ... at an offset divisible by its alignment" - and the
\* same for counters, flags, discriminators, enums and nested composites
EmitWidth(tk) ==
    CASE tk.op = "val" -> TAlign(lay, tk.t)
      [] tk.op = "cnt" -> tk.n
      [] tk.op = "opt" -> 4
      [] OTHER -> 1
AlignedEmit ==
    (phase = "enc" /\ todo # <<>>) => Len(outL) % EmitWidth(Top) = 0

\* zero fill never has to go backwards (slots are large enough)
ZeroFillForward ==
    (phase = "enc" /\ todo # <<>> /\ Top.op = "zto") => Top.a >= Len(outL)

\* C19: the two byte orders differ only inside scalars; padding is zero
Mirror ==
    \A p \in 1..Len(role) :
        LET r == role[p] IN
        /\ r[1] = "p" => outL[p] = 0 /\ outB[p] = 0
        /\ r[1] # "p" => outB[p] = outL[p - r[3] + (r[2] + 1 - r[3])]

\* C04: a fixed type has exactly one encoding length; any message is a
\* multiple of its alignment long unless it ends in a greedy tail
\* C02's documented exception: the greedy tail ends on the message's end
\* (no padding follows it), or there is no greedy array at all
GreedyTailAligned == gend = 0 \/ gend = Len(outL) + 1

FixedLength ==
    phase = "done" =>
        /\ lay[root].kind = FIXED => Len(outL) = lay[root].size
        /\ Len(outL) % lay[root].align = 0

=============================================================================
