------------------------------ MODULE WireDec ------------------------------
(***************************************************************************)
(* The reference DECODER machine and the fault model (C02 C06 C07).        *)
(*                                                                         *)
(* After an encoder behaviour of Wire has finished, DecStart chooses a     *)
(* byte order and a FAULT (none / every truncation / extension / every     *)
(* corruption of a control word: counter, optional flag, discriminator,    *)
(* enum) and the decoder reads the resulting input `inp` with cursor       *)
(* `pos`.  Every read and every skip is guarded by an explicit bounds      *)
(* check; the verdict is total (accept / reject(reason)).                  *)
(*                                                                         *)
(* The reference decoder is strict about structure (unknown enumerator or  *)
(* discriminator, counter above its limit or above the remaining input,    *)
(* bytes left over) and indifferent to the VALUES of padding bytes         *)
(* ("technically padding bytes can have any values").                      *)
(***************************************************************************)
EXTENDS Wire

VARIABLES
    inp,      \* the input handed to the decoder
    dord,     \* "L" | "B": byte order the decoder assumes
    fault,    \* label of the fault applied to the canonical image
    pos,      \* number of bytes consumed
    dtodo,    \* stack of decoder tasks (same task shapes as the encoder)
    dframes,  \* struct instances: member index -> decoded counter
    dwalk,    \* reconstructed structural choices and payloads
    verdict,  \* "none" | "run" | "accept" | "reject"
    reason    \* why rejected

dvars == <<inp, dord, fault, pos, dtodo, dframes, dwalk, verdict, reason>>
allvars == <<vars, dvars>>

CONSTANTS
    FaultKinds,   \* subset of {"none", "trunc", "ext", "ctl"}
    DecOrders     \* subset of {"L", "B"}

(* ---- the fault model --------------------------------------------------- *)
CorruptValues(w) ==
    {IntBytes(v, w) : v \in {0, 1, 2, 3, 255, 256, 65535, 65536, 65537}}
    \cup {[j \in 1..w |-> 255], [j \in 1..w |-> IF j = w THEN 128 ELSE 0]}

Splice(s, p, bytes) ==
    [q \in 1..Len(s) |-> IF q >= p /\ q < p + Len(bytes) THEN bytes[q - p + 1] ELSE s[q]]

\* positions (1-based) at which a control word starts, with its width
ControlStarts ==
    {p \in 1..Len(role) : role[p][1] \in {"c", "f", "d", "e"} /\ role[p][3] = 1}

Faulted(ord) ==
    LET img == IF ord = "L" THEN outL ELSE outB
        put(p, bytes) == Splice(img, p, IF ord = "L" THEN bytes ELSE Reverse(bytes))
    IN  (IF "none" \in FaultKinds THEN {<< <<"none", 0, 0>>, img >>} ELSE {})
        \cup (IF "trunc" \in FaultKinds
              THEN {<< <<"trunc", n, 0>>, SubSeq(img, 1, n) >> : n \in 0..(Len(img) - 1)} ELSE {})
        \cup (IF "ext" \in FaultKinds
              THEN {<< <<"ext", b, 0>>, img \o <<b>> >> : b \in {0, 1, 255}} ELSE {})
        \cup (IF "ctl" \in FaultKinds
              THEN UNION {{<< <<"ctl", p, c[1]>>, put(p, c) >> : c \in CorruptValues(role[p][2]) \ {SubSeq(outL, p, p + role[p][2] - 1)}}
                          : p \in ControlStarts}
              ELSE {})

(* ---- decoder ----------------------------------------------------------- *)
DTop == Head(dtodo)
DRest == Tail(dtodo)
Remaining == Len(inp) - pos
\* the next w bytes as a little-endian tuple
Read(w) == LET raw == SubSeq(inp, pos + 1, pos + w) IN IF dord = "L" THEN raw ELSE Reverse(raw)

\* numeric value of a counter, or Huge when it does not fit 16 bits (it then
\* certainly exceeds the remaining input, whose length is far below 65536)
Huge == 1000000
CountOf(bytes) ==
    IF \E j \in 3..Len(bytes) : bytes[j] # 0 THEN Huge
    ELSE bytes[1] + (IF Len(bytes) >= 2 THEN 256 * bytes[2] ELSE 0)

DecStart(ord, f) ==
    /\ phase = "done"
    /\ ord \in DecOrders
    /\ f \in Faulted(ord)
    /\ phase' = "dec"
    /\ dord' = ord /\ fault' = f[1] /\ inp' = f[2]
    /\ pos' = 0 /\ dtodo' = << ValTask(Ref(root)) >> /\ dframes' = <<>> /\ dwalk' = <<>>
    /\ verdict' = "run" /\ reason' = ""
    /\ UNCHANGED <<svars, evars>>

Reject(r) ==
    /\ phase' = "ddone" /\ verdict' = "reject" /\ reason' = r
    /\ UNCHANGED <<svars, evars, inp, dord, fault, pos, dtodo, dframes, dwalk>>

Running == phase = "dec" /\ dtodo # <<>>
Keep == UNCHANGED <<svars, evars, inp, dord, fault, verdict, reason>>

DecEnterStruct ==
    /\ Running /\ DTop.op = "val" /\ IsStructRef(env, DTop.t)
    /\ LET i == Base(env, DTop.t).i IN
         /\ dtodo' = StructTasks(i) \o DRest
         /\ dframes' = << [j \in 1..Len(env[i].ms) |-> 0] >> \o dframes
    /\ UNCHANGED <<phase, pos, dwalk>> /\ Keep

\* skip padding up to an alignment (pad / leave) - bounds checked
DecSkipAlign ==
    /\ Running /\ DTop.op \in {"pad", "leave"}
    /\ LET np == AlignUp(pos, DTop.a) IN
         IF np <= Len(inp)
         THEN /\ pos' = np /\ dtodo' = DRest
              /\ dframes' = IF DTop.op = "leave" THEN Tail(dframes) ELSE dframes
              /\ UNCHANGED <<phase, dwalk>> /\ Keep
         ELSE Reject("padding beyond end")

\* skip to an absolute offset (slot remainder) - bounds checked
DecSkipTo ==
    /\ Running /\ DTop.op = "zto"
    /\ IF DTop.a <= Len(inp)
       THEN /\ pos' = DTop.a /\ dtodo' = DRest
            /\ UNCHANGED <<phase, dframes, dwalk>> /\ Keep
       ELSE Reject("slot beyond end")

DecScalar ==
    /\ Running /\ DTop.op = "val" /\ IsScalarRef(env, DTop.t)
    /\ LET w == Base(env, DTop.t).w IN
         IF Remaining >= w
         THEN /\ dwalk' = Append(dwalk, Ev("int", 0, Read(w)))
              /\ pos' = pos + w /\ dtodo' = DRest
              /\ UNCHANGED <<phase, dframes>> /\ Keep
         ELSE Reject("scalar beyond end")

DecEnum ==
    /\ Running /\ DTop.op = "val" /\ IsEnumRef(env, DTop.t)
    /\ LET vals == env[Base(env, DTop.t).i].vals IN
         IF Remaining < 4 THEN Reject("enum beyond end")
         ELSE IF \E j \in 1..Len(vals) : IntBytes(vals[j], 4) = Read(4)
         THEN /\ dwalk' = Append(dwalk, Ev("enum", CHOOSE j \in 1..Len(vals) : IntBytes(vals[j], 4) = Read(4), <<>>))
              /\ pos' = pos + 4 /\ dtodo' = DRest
              /\ UNCHANGED <<phase, dframes>> /\ Keep
         ELSE Reject("unknown enumerator")

DecCounter ==
    /\ Running /\ DTop.op = "cnt"
    /\ LET w == DTop.n IN
         IF Remaining < w THEN Reject("counter beyond end")
         ELSE IF CountOf(Read(w)) < DTop.s THEN Reject("counter below shift")
         ELSE LET n == CountOf(Read(w)) - DTop.s IN
              IF DTop.a > 0 /\ n > DTop.a THEN Reject("counter above limit")
              ELSE IF n > Remaining - w THEN Reject("counter above remaining input")
              ELSE /\ dframes' = << [Head(dframes) EXCEPT ![DTop.m] = n] >> \o Tail(dframes)
                   /\ dwalk' = Append(dwalk, Ev("len", n, <<>>))
                   /\ pos' = pos + w /\ dtodo' = DRest
                   /\ UNCHANGED phase /\ Keep

DecArray ==
    /\ Running /\ DTop.op = "arr"
    /\ LET n == Head(dframes)[DTop.m]
           fill == IF DTop.n > 0
                   THEN << Tk("zto", Byte, pos + DTop.n * TSize(lay, DTop.t), 0, 0) >> ELSE <<>>
       IN dtodo' = Copies(n, ValTask(DTop.t)) \o fill \o DRest
    /\ UNCHANGED <<phase, pos, dframes, dwalk>> /\ Keep

\* greedy array: fixed-size elements - as many as fit; dynamic elements - one
\* more while input remains.  The "len" event is patched when the array ends.
DecGreedy ==
    /\ Running /\ DTop.op = "gre"
    /\ LET fixedElem == TKind(lay, DTop.t) = FIXED
           idx == IF DTop.a = 0 THEN Len(dwalk) + 1 ELSE DTop.a   \* position of the len event
           w0 == IF DTop.a = 0 THEN Append(dwalk, Ev("len", 0, <<>>)) ELSE dwalk
       IN IF fixedElem
          THEN LET n == Remaining \div TSize(lay, DTop.t) IN
               /\ dwalk' = Append(dwalk, Ev("len", n, <<>>))
               /\ dtodo' = Copies(n, ValTask(DTop.t)) \o DRest
          ELSE IF Remaining > 0
               THEN /\ dwalk' = [w0 EXCEPT ![idx].n = @ + 1]
                    /\ dtodo' = << ValTask(DTop.t), Tk("gre", DTop.t, idx, 0, 0) >> \o DRest
               ELSE /\ dwalk' = w0
                    /\ dtodo' = DRest
    /\ UNCHANGED <<phase, pos, dframes>> /\ Keep

DecGreedyEnd ==
    /\ Running /\ DTop.op \in {"gend", "umark"}
    /\ dtodo' = DRest
    /\ UNCHANGED <<phase, pos, dframes, dwalk>> /\ Keep

DecOptFlag ==
    /\ Running /\ DTop.op = "opt"
    /\ IF Remaining < 4 THEN Reject("flag beyond end")
       ELSE IF Read(4) = Zeros(4)
       THEN LET target == pos + DTop.a + TSize(lay, DTop.t) IN
            IF target <= Len(inp)
            THEN /\ pos' = target /\ dtodo' = DRest
                 /\ dwalk' = Append(dwalk, Ev("opt", 0, <<>>))
                 /\ UNCHANGED <<phase, dframes>> /\ Keep
            ELSE Reject("absent optional beyond end")
       ELSE /\ pos' = pos + 4
            /\ dtodo' = << Tk("pad", Byte, DTop.a, 0, 0), ValTask(DTop.t) >> \o DRest
            /\ dwalk' = Append(dwalk, Ev("opt", 1, <<>>))
            /\ UNCHANGED <<phase, dframes>> /\ Keep

DecDisc ==
    /\ Running /\ DTop.op = "val" /\ IsUnionRef(env, DTop.t)
    /\ LET i == Base(env, DTop.t).i
           arms == env[i].arms
       IN IF Remaining < 4 THEN Reject("discriminator beyond end")
          ELSE IF \E a \in 1..Len(arms) : IntBytes(arms[a].d, 4) = Read(4)
          THEN LET a == CHOOSE a \in 1..Len(arms) : IntBytes(arms[a].d, 4) = Read(4) IN
               /\ dwalk' = Append(dwalk, Ev("arm", a, <<>>))
               /\ dtodo' = << Tk("pad", Byte, lay[i].align, 0, 0), ValTask(arms[a].t),
                              Tk("zto", Byte, pos + lay[i].size, 0, 0) >> \o DRest
               /\ pos' = pos + 4
               /\ UNCHANGED <<phase, dframes>> /\ Keep
          ELSE Reject("unknown discriminator")

DecFinish ==
    /\ phase = "dec" /\ dtodo = <<>>
    /\ IF pos = Len(inp)
       THEN /\ phase' = "ddone" /\ verdict' = "accept"
            /\ UNCHANGED <<svars, evars, inp, dord, fault, pos, dtodo, dframes, dwalk, reason>>
       ELSE Reject("bytes left over")

DecNext ==
    \/ \E ord \in DecOrders : \E f \in Faulted(ord) : DecStart(ord, f)
    \/ DecEnterStruct \/ DecSkipAlign \/ DecSkipTo \/ DecScalar \/ DecEnum \/ DecCounter
    \/ DecArray \/ DecGreedy \/ DecGreedyEnd \/ DecOptFlag \/ DecDisc \/ DecFinish

DInit ==
    /\ Init
    /\ inp = <<>> /\ dord = "L" /\ fault = <<"none", 0, 0>> /\ pos = 0 /\ dtodo = <<>>
    /\ dframes = <<>> /\ dwalk = <<>> /\ verdict = "none" /\ reason = ""

DNext == (Next /\ UNCHANGED dvars) \/ DecNext

DSpec == DInit /\ [][DNext]_allvars

(* ---- properties ---------------------------------------------------------- *)
\* C06/C07 at design level: the reference decoder never moves past the end
DecoderInBounds == pos <= Len(inp)

\* C02: decoding a canonical image gives back the encoded walk and consumes
\* exactly the input - for messages whose greedy tail ends aligned
RoundTrip ==
    (phase = "ddone" /\ fault[1] = "none" /\ GreedyTailAligned)
        => (verdict = "accept" /\ dwalk = walk /\ pos = Len(inp))

\* the same WITHOUT the documented restriction: must be violated (vacuity guard)
RoundTripUnrestricted ==
    (phase = "ddone" /\ fault[1] = "none") => (verdict = "accept" /\ dwalk = walk)

\* an accepted input was consumed completely
AcceptConsumesAll == verdict = "accept" => pos = Len(inp)

\* truncating a message that has no greedy tail is always detected
TruncationDetected ==
    (phase = "ddone" /\ fault[1] = "trunc" /\ gend = 0) => verdict = "reject"
=============================================================================
