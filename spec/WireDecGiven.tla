---------------------------- MODULE WireDecGiven ----------------------------
(***************************************************************************)
(* The reference decoder of WireDec run on GIVEN inputs: the schema and    *)
(* the byte string come from a JSON file instead of from an encoder        *)
(* behaviour and the fault model.  Used for validating DECODES recorded    *)
(* from the real codecs on randomly drawn schemas and arbitrarily mutated  *)
(* inputs (code -> specification direction of C02 C03 C06 C07): for every  *)
(* recorded (schema, input, byte order) TLC computes the reference         *)
(* verdict, the rejection reason and the decoded walk; the harness then    *)
(* lets the encoder specification (WireGiven!TSpec) encode that walk, which*)
(* decides whether the input was the canonical image of a value (then the  *)
(* real decoder owes exactly that value) or not.                           *)
(*                                                                         *)
(* File (IOEnv.GIVEN_FILE): [ {env: [TypeDef...], inp: [bytes], ord: "L"|"B"} ... ]  *)
(* One initial state per item; every behaviour is deterministic.           *)
(***************************************************************************)
EXTENDS WireDec, Json, IOUtils

VARIABLE gid

Given == JsonDeserialize(IOEnv.GIVEN_FILE)
NoInner == <<>>

ASSUME \A i \in 1..Len(Given) : LegalEnv(Given[i].env) \/ PrintT("ILLEGAL " \o ToString(i))

DGInit ==
    /\ gid \in 1..Len(Given)
    /\ LegalEnv(Given[gid].env)
    /\ env = Given[gid].env
    /\ lay = LayAll(env)
    /\ cur = <<>>
    /\ root = Len(env)
    /\ phase = "dec"
    /\ todo = <<>> /\ frames = <<>> /\ outL = <<>> /\ outB = <<>> /\ role = <<>>
    /\ walk = <<>> /\ k = 1 /\ gend = 0 /\ ust = 0
    /\ inp = Given[gid].inp /\ dord = Given[gid].ord /\ fault = <<"given", 0, 0>>
    /\ pos = 0 /\ dtodo = << ValTask(Ref(Len(env))) >> /\ dframes = <<>> /\ dwalk = <<>>
    /\ verdict = "run" /\ reason = ""

\* DecStart is disabled (phase is never "done"): only decoder steps remain
DGNext == DecNext /\ UNCHANGED gid
DGSpec == DGInit /\ [][DGNext]_<<allvars, gid>>

DGVerdict ==
    [gid |-> gid, verdict |-> verdict, reason |-> reason, dwalk |-> dwalk, pos |-> pos,
     kind |-> lay[root].kind, align |-> lay[root].align]
DGDump == phase = "ddone" => PrintT("DV " \o ToJson(DGVerdict))
=============================================================================
