------------------------------ MODULE WireDecMC ------------------------------
(***************************************************************************)
(* Model-checking instance of WireDec: decoder + fault enumeration.        *)
(***************************************************************************)
EXTENDS WireDec, Inners, Json

ASSUME PrintT("INNER " \o ToJson(Inner))

\* one JSON line per finished decode
FVector ==
    [env |-> SubSeq(env, Len(Inner) + 1, Len(env)), ninner |-> Len(Inner), root |-> root, rkind |-> lay[root].kind,
     walk |-> walk, gta |-> GreedyTailAligned, ord |-> dord, fault |-> fault, inp |-> inp,
     verdict |-> verdict, reason |-> reason, dwalk |-> dwalk, pos |-> pos]
FDump == phase = "ddone" => PrintT("FVEC " \o ToJson(FVector))
=============================================================================
