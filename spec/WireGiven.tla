----------------------------- MODULE WireGiven -----------------------------
(***************************************************************************)
(* Wire with the schema GIVEN (read from a JSON file) instead of being     *)
(* constructed.  Two uses:                                                 *)
(*                                                                         *)
(*  GSpec  - generation: every structural value of every given schema is   *)
(*           explored and dumped (known-finding reproducers, replay files, *)
(*           schemas drawn by the hypothesis layer).                       *)
(*  TSpec  - TRACE VALIDATION: every given item also carries a walk and    *)
(*           the byte images recorded from the real codec; each encoder    *)
(*           action is bound to the next recorded event, and the images    *)
(*           the specification produces are compared with the recorded     *)
(*           ones.  One TLC start validates thousands of traces (one       *)
(*           initial state per trace).                                     *)
(*                                                                         *)
(* File (IOEnv.GIVEN_FILE): [ {env: [TypeDef...], walk: [Ev...],           *)
(*                             obsL: [bytes], obsB: [bytes]} ... ]         *)
(***************************************************************************)
EXTENDS Wire, Json, IOUtils

VARIABLE gid   \* index of the given item this behaviour is about

Given == JsonDeserialize(IOEnv.GIVEN_FILE)

gvars == <<vars, gid>>
NoInner == <<>>

\* items whose environment is not legal get no behaviour; they are reported
ASSUME \A i \in 1..Len(Given) : LegalEnv(Given[i].env) \/ PrintT("ILLEGAL " \o ToString(i))

GInit ==
    /\ gid \in 1..Len(Given)
    /\ LegalEnv(Given[gid].env)
    /\ env = Given[gid].env
    /\ lay = LayAll(env)
    /\ cur = <<>>
    /\ root = Len(env)
    /\ phase = "enc"
    /\ todo = << ValTask(Ref(Len(env))) >>
    /\ frames = <<>> /\ outL = <<>> /\ outB = <<>> /\ role = <<>>
    /\ walk = <<>> /\ k = 1 /\ gend = 0 /\ ust = 0

GNext == EncNext /\ UNCHANGED gid
GSpec == GInit /\ [][GNext]_gvars

\* every given environment must be legal (else the harness generated garbage)
GivenLegal == LegalEnv(env)

GVector ==
    [gid |-> gid, lay |-> lay, root |-> root, walk |-> walk, outL |-> outL, outB |-> outB,
     role |-> [p \in 1..Len(role) |-> role[p][1]],
     wid |-> [p \in 1..Len(role) |-> role[p][2]],
     gta |-> GreedyTailAligned, ust |-> ust,
     raw |-> [i \in 1..Len(env) |-> IF env[i].k = "struct" THEN RawTable(Parts(SubSeq(lay, 1, i - 1), env[i].ms)) ELSE <<>>]]
GDump == phase = "done" => PrintT("GVEC " \o ToJson(GVector))

(* ---- trace validation --------------------------------------------------- *)
TWalk == Given[gid].walk
HasEv == Len(walk) < Len(TWalk)
NextEv == TWalk[Len(walk) + 1]

\* silent (deterministic) steps need no event; choice steps consume one
TNext ==
    /\ UNCHANGED gid
    /\ \/ EncEnterStruct \/ EncLeave \/ EncPad \/ EncZero \/ EncArray \/ EncGreedyEnd \/ EncUMark
       \/ (HasEv /\ NextEv.e = "int"  /\ EncScalarV(NextEv.v))
       \/ (HasEv /\ NextEv.e = "enum" /\ EncEnum(NextEv.n))
       \/ (HasEv /\ NextEv.e = "len"  /\ Top.op = "cnt" /\ EncCounterAny(NextEv.n))
       \/ (HasEv /\ NextEv.e = "len"  /\ Top.op = "gre" /\ EncGreedyAny(NextEv.n))
       \/ (HasEv /\ NextEv.e = "opt"  /\ EncOptFlag(NextEv.n))
       \/ (HasEv /\ NextEv.e = "arm"  /\ EncDisc(NextEv.n))
       \/ (~HasEv /\ EncFinish)

TSpec == GInit /\ [][TNext]_gvars

\* the first offset at which two images differ (1-based), 0 if equal
FirstDiff(a, b) ==
    IF a = b THEN 0
    ELSE LET n == Min(Len(a), Len(b))
             D == {p \in 1..n : a[p] # b[p]}
         IN IF D = {} THEN n + 1 ELSE CHOOSE p \in D : \A q \in D : p <= q

TVerdict ==
    [gid |-> gid,
     dL |-> FirstDiff(outL, Given[gid].obsL), dB |-> FirstDiff(outB, Given[gid].obsB),
     nL |-> Len(outL), outL |-> outL, outB |-> outB, gta |-> GreedyTailAligned, align |-> lay[root].align, kind |-> lay[root].kind,
     size |-> lay[root].size, ust |-> ust]
TDump == phase = "done" => PrintT("TV " \o ToJson(TVerdict))
=============================================================================
