------------------------------- MODULE WireMC -------------------------------
(***************************************************************************)
(* Model-checking instance of Wire: the curated inner environment and the  *)
(* vector dump.  Used by WireE*.cfg (exhaustive) and WireS.cfg (simulate). *)
(***************************************************************************)
EXTENDS Wire, Inners, Json

ASSUME PrintT("INNER " \o ToJson(Inner))
ASSUME LegalEnv(InnerDef)
ASSUME LegalEnv(InnerSmall)

\* one JSON line per finished behaviour; the invariant is always TRUE
Vector ==
    [env |-> SubSeq(env, Len(Inner) + 1, Len(env)), ninner |-> Len(Inner),
     lay |-> lay, root |-> root, walk |-> walk, outL |-> outL, outB |-> outB,
     role |-> [p \in 1..Len(role) |-> role[p][1]],
     wid |-> [p \in 1..Len(role) |-> role[p][2]],
     gta |-> GreedyTailAligned, ust |-> ust,
     raw |-> [i \in 1..Len(env) |-> IF env[i].k = "struct" THEN RawTable(Parts(SubSeq(lay, 1, i - 1), env[i].ms)) ELSE <<>>]]
Dump == phase = "done" => PrintT("VEC " \o ToJson(Vector))
=============================================================================
