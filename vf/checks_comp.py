"""C12-C17, C20: the prophyc pipeline."""
import json
import os
import random
import shutil
import tempfile
from concurrent.futures import ProcessPoolExecutor

from . import compleg as CL, pyleg as P, schema as S, shadows, wire
from .common import Report, scratch_dir, seed, NCPU, MachineryError
from .tlcrun import run_tlc


def _chunks(xs, n):
    n = max(1, n)
    k = (len(xs) + n - 1) // n
    return [xs[i:i + k] for i in range(0, len(xs), k)] if xs else []


# ---------------------------------------------------------------------------
# C15
# ---------------------------------------------------------------------------
def topo_cases(tier):
    cases, stats = [], []

    def collect(tag, body):
        cases.append(json.loads(body))

    runs = [(3, None)] if tier == "quick" else [(3, None), (4, None)]
    for n, sim in runs:
        res = run_tlc("TopoSort", {"N": n, "Acyclic": "TRUE"},
                      invariants=["ResultCorrect", "AlwaysPermutation", "PrefixPlaced", "TDump"],
                      properties=["Termination"], spec="TSpec", prefix=("TOPO",), on_line=collect)
        stats.append(res.stats)
    if tier == "quick":
        # all labelled DAGs on 4 nodes x all orders, without the liveness pass, then sampled
        more = []
        res = run_tlc("TopoSort", {"N": 4, "Acyclic": "TRUE"},
                      invariants=["ResultCorrect", "AlwaysPermutation", "PrefixPlaced", "TDump"],
                      spec="TSpec", prefix=("TOPO",), on_line=lambda t, b: more.append(json.loads(b)))
        stats.append(res.stats)
        rnd = random.Random(seed())
        cases += rnd.sample(more, min(len(more), 1200))
    else:
        more = []
        res = run_tlc("TopoSort", {"N": 5, "Acyclic": "TRUE"},
                      invariants=["ResultCorrect", "AlwaysPermutation", "PrefixPlaced", "TDump"],
                      spec="TSpec", prefix=("TOPO",), on_line=lambda t, b: more.append(json.loads(b)),
                      simulate=400, depth=60, seed=seed())
        stats.append(res.stats)
        cases += more
    # the design-level hang: on cyclic graphs termination must be refuted
    res = run_tlc("TopoSort", {"N": 3, "Acyclic": "FALSE"}, properties=["TerminatesOnCycles"], spec="TSpec",
                  expect_violation=True)
    if res.ok or "TerminatesOnCycles was violated" not in (res.error or ""):
        raise MachineryError("TLC did not refute termination of the rotation sort on cyclic graphs: %s" % res.error)
    stats.append(res.stats)
    return cases, stats


def topo_worker(cases, lay_by_key, extra):
    res = {"fails": [], "n": 0, "samples": [], "nontrivial": 0}
    work = tempfile.mkdtemp(prefix="vftopo-", dir=extra.get("scratch"))
    try:
        for ci, c in enumerate(cases):
            deps = {i + 1: list(d) for i, d in enumerate(c["deps"])}
            order = list(c["input"])
            for variant in (0, 1):
                kinds = CL.assign_kinds(deps, variant)
                doc, nm = CL.isar_document(deps, order, kinds)
                sub = os.path.join(work, "c%d_%d" % (ci, variant))
                os.mkdir(sub)
                path = os.path.join(sub, "defs.xml")
                with open(path, "w") as f:
                    f.write(doc)
                res["n"] += 1
                if any(deps.values()):
                    res["nontrivial"] += 1
                base = {"check": "order", "deps": deps, "input": order, "kinds": kinds, "isar": doc, "variant": variant}
                status, nodes, _ = CL.run_main([path, "--isar", "--python_out", sub])
                if status != "ok":
                    res["fails"].append(dict(base, what="prophyc --isar failed on a valid acyclic input: %s" % (nodes,)))
                    continue
                names = [n.name for n in nodes["defs"]]
                want = sorted(nm(n) for n in deps)
                if sorted(names) != want:
                    res["fails"].append(dict(base, what="output lists %r, the input defines %r" % (names, want)))
                    continue
                pos = {n: names.index(nm(n)) for n in deps}
                bad = [(n, d) for n in deps for d in deps[n] if pos[d] > pos[n]]
                if bad:
                    n, d = bad[0]
                    res["fails"].append(dict(base, what="output order %r: %s comes before its dependency %s"
                                             % (names, nm(n), nm(d)), output=names))
                    continue
                try:
                    P.import_generated(sub, "defs")
                except P.CompileFailure as e:
                    res["fails"].append(dict(base, what="generated Python module does not import: %s" % e, output=names))
                    continue
                key = json.dumps([sorted(deps.items()), variant])
                lay, idx = lay_by_key[key]
                for node in nodes["defs"]:
                    n = int(node.name[1:])
                    if kinds[n] in ("struct", "union"):
                        w = lay[idx[str(n)] - 1] if isinstance(idx, dict) and str(n) in idx else lay[idx[n] - 1]
                        if (node.byte_size, node.alignment) != (w["size"], w["align"]):
                            res["fails"].append(dict(base, what="layout of %s is (%r, %r) for input order %r; layout "
                                                     "rules give (%d, %d)" % (node.name, node.byte_size, node.alignment,
                                                                              order, w["size"], w["align"])))
                if len(res["samples"]) < 1 and variant == 1 and len(deps) > 3:
                    res["samples"].append({"deps": deps, "input": order, "kinds": kinds, "output": names})
                shutil.rmtree(sub, ignore_errors=True)
    finally:
        shutil.rmtree(work, ignore_errors=True)
    return res


def c15(tier, replay):
    rep = Report("C15", tier)
    rep.assumptions = [
        "spec/TopoSort.tla: abstract requirement + the rotation algorithm, every DAG on <= 4 nodes x every input order "
        "(5 nodes by simulation in the thorough tier); termination refuted on cyclic graphs (vacuity guard)",
        "each (graph, order) is rendered as isar XML twice: all definitions structs (the input order reaches the sort "
        "unchanged) and mixed kinds (constants, enums, typedefs, structs, unions; isar regroups by kind)",
        "sack front-end not exercised"]
    cases, stats = topo_cases(tier)
    for st in stats:
        rep.add_tlc(st)
    # layouts from the specification for every distinct (graph, variant)
    keys, envs, idxs = [], [], []
    seen = set()
    for c in cases:
        deps = {i + 1: list(d) for i, d in enumerate(c["deps"])}
        for variant in (0, 1):
            key = json.dumps([sorted(deps.items()), variant])
            if key in seen:
                continue
            seen.add(key)
            kinds = CL.assign_kinds(deps, variant)
            defs, idx, _ = CL.schema_env_for_graph(deps, kinds)
            keys.append(key)
            envs.append(defs)
            idxs.append(idx)
    lays, st = wire.layout_of(envs)
    rep.add_tlc(st)
    lay_by_key = {}
    for key, l, idx in zip(keys, lays, idxs):
        if not l["legal"]:
            raise MachineryError("graph rendering produced an environment the specification calls illegal")
        lay_by_key[key] = (l["lay"], idx)
    jobs = _chunks(cases, NCPU)
    with ProcessPoolExecutor(max_workers=NCPU) as ex:
        results = list(ex.map(topo_worker, jobs, [lay_by_key] * len(jobs), [{"scratch": scratch_dir("topo")}] * len(jobs)))
    nt = 0
    for r in results:
        rep.count(r["n"])
        rep.validated(r["n"])
        nt += r["nontrivial"]
        for s in r["samples"]:
            rep.sample(s)
        for f in r["fails"]:
            rep.violation(f, shadows.match("C15", f))
    for k in range(nt):
        rep.nontrivial(k)
    rep.cov["rule"] = ("TLC enumerates every labelled DAG and every input permutation and proves the rotation sort "
                       "correct and terminating on them; each (DAG, permutation) is fed to prophyc --isar in two "
                       "renderings; non-trivial = graphs with at least one dependency edge")
    rep.cov["exhaustive"] = tier != "quick"
    return rep.finish()


# ---------------------------------------------------------------------------
# C14
# ---------------------------------------------------------------------------
def expr_cases(tier):
    cases = []
    depth = 2 if tier == "quick" else 3
    res = run_tlc("Expr", {"Depth": depth, "Lits": "{0, 1, 2, 5, 12}", "NameVals": "<- NV"},
                  invariants=["ValueSmall", "EDump"], spec="ESpec", prefix=("EXPR",),
                  on_line=lambda t, b: cases.append(json.loads(b)))
    return cases, [res.stats]


def _has_octal(text):
    import re
    return re.search(r"(?<![0-9A-Za-zx])0[0-7]+", text) is not None


def expr_worker(cases, wid, extra):
    """cases: list of {min, full, value, names}"""
    import prophyc.calc as calc
    res = {"fails": [], "n": 0, "samples": [], "nontrivial": 0, "n_cpp": 0}
    work = tempfile.mkdtemp(prefix="vfexpr-", dir=extra.get("scratch"))
    names = cases[0]["names"] if cases else []
    kvars = {"K%d" % (i + 1): v for i, v in enumerate(names)}
    pre = "".join("const K%d = %d;\n" % (i + 1, v) for i, v in enumerate(names))

    def fail(c, ctx, what):
        res["fails"].append({"check": "expr", "what": what, "context": ctx, "min": c["min"], "full": c["full"],
                             "value": c["value"]})

    def decls(i, c, text, tag):
        v = c["value"]
        out = ["const %s%d = %s;" % (tag, i, text)]
        if 0 <= v < 2 ** 32:
            out.append("enum E%s%d { E%s%d_a = %s };" % (tag, i, tag, i, text))
            out.append("union U%s%d { %s: u8 a; };" % (tag, i, text))
        if 1 <= v <= 64:
            out.append("struct S%s%d { u8 a[%s]; };" % (tag, i, text))
        return out

    def check_prophy(chunk, base_i):
        text = pre
        for off, c in enumerate(chunk):
            i = base_i + off
            text += "\n".join(decls(i, c, c["min"], "M") + decls(i, c, c["full"], "F")) + "\n"
        sub = tempfile.mkdtemp(prefix="p", dir=work)
        path = os.path.join(sub, "e.prophy")
        with open(path, "w") as f:
            f.write(text)
        status, nodes, _ = CL.run_main([path, "--python_out", sub])
        if status != "ok":
            return status, nodes
        try:
            mod = P.import_generated(sub, "e")
        except P.CompileFailure as e:
            return "import", str(e)
        by = {n.name: n for n in nodes["e"]}
        for off, c in enumerate(chunk):
            i, v = base_i + off, c["value"]
            for tag, txt in (("M", c["min"]), ("F", c["full"])):
                node = by["%s%d" % (tag, i)]
                if str(node.value) != str(v):
                    fail(c, "prophy const (%s)" % txt, "model constant value is %r, the expression denotes %d" % (node.value, v))
                got = getattr(mod, "%s%d" % (tag, i))
                if got != v or isinstance(got, float):
                    fail(c, "python const (%s)" % txt, "generated Python constant is %r, the expression denotes %d" % (got, v))
                if 0 <= v < 2 ** 32:
                    ev = getattr(mod, "E%s%d_a" % (tag, i))
                    if ev != v:
                        fail(c, "enumerator (%s)" % txt, "generated enumerator value is %r, expected %d" % (ev, v))
                    u = getattr(mod, "U%s%d" % (tag, i))
                    if u._descriptor[0].discriminator != v:
                        fail(c, "discriminator (%s)" % txt, "union discriminator is %r, expected %d"
                             % (u._descriptor[0].discriminator, v))
                if 1 <= v <= 64:
                    snode = by["S%s%d" % (tag, i)]
                    if snode.byte_size != v:
                        fail(c, "array size (%s)" % txt, "model size of 'u8 a[%s]' is %r, expected %d" % (txt, snode.byte_size, v))
                    if getattr(mod, "S%s%d" % (tag, i))._SIZE != v:
                        fail(c, "array size (%s)" % txt, "python _SIZE of 'u8 a[%s]' is %r, expected %d"
                             % (txt, getattr(mod, "S%s%d" % (tag, i))._SIZE, v))
        shutil.rmtree(sub, ignore_errors=True)
        return "ok", None

    def check_isar(chunk, base_i):
        elems = ['<constant name="K%d" value="%d"/>' % (i + 1, v) for i, v in enumerate(names)]
        used = []
        for off, c in enumerate(chunk):
            i = base_i + off
            for tag, txt in (("M", c["min"]), ("F", c["full"])):
                if _has_octal(txt):
                    continue
                used.append((i, tag, txt, c))
                elems.append('<constant name="%s%d" value="%s"/>' % (tag, i, CL.xml_escape(txt)))
                if 1 <= c["value"] <= 64:
                    elems.append('<struct name="S%s%d"><member name="a" type="u8"><dimension size="%s"/></member></struct>'
                                 % (tag, i, CL.xml_escape(txt)))
        sub = tempfile.mkdtemp(prefix="i", dir=work)
        path = os.path.join(sub, "e.xml")
        with open(path, "w") as f:
            f.write("<x>\n%s\n</x>\n" % "\n".join(elems))
        status, nodes, _ = CL.run_main([path, "--isar", "--python_out", sub])
        if status != "ok":
            return status, nodes
        try:
            mod = P.import_generated(sub, "e")
        except P.CompileFailure as e:
            return "import", str(e)
        by = {n.name: n for n in nodes["e"]}
        for i, tag, txt, c in used:
            v = c["value"]
            got = getattr(mod, "%s%d" % (tag, i))
            if got != v or isinstance(got, float):
                fail(c, "isar -> python const (%s)" % txt, "the Python module evaluates the constant to %r, the expression "
                     "denotes %d" % (got, v))
            if 1 <= v <= 64 and by["S%s%d" % (tag, i)].byte_size != v:
                fail(c, "isar array size (%s)" % txt, "model size is %r, expected %d" % (by["S%s%d" % (tag, i)].byte_size, v))
        shutil.rmtree(sub, ignore_errors=True)
        return "ok", None

    try:
        size = 150
        for start in range(0, len(cases), size):
            chunk = cases[start:start + size]
            for c in chunk:
                res["n"] += 1
                if c["min"] != c["full"].strip("()"):
                    res["nontrivial"] += 1
                # the model-time evaluator, directly
                for txt in (c["min"], c["full"]):
                    if _has_octal(txt):
                        continue
                    try:
                        got = calc.eval(txt, dict(kvars))
                    except BaseException as e:  # noqa
                        got = "%s: %s" % (type(e).__name__, e)
                    if got != c["value"] or isinstance(got, float):
                        fail(c, "calc.eval(%s)" % txt, "model-time evaluator gives %r, the expression denotes %d" % (got, c["value"]))
            for fn, label in ((check_prophy, "prophy"), (check_isar, "isar")):
                status, info = fn(chunk, start)
                if status != "ok":
                    # isolate: one expression per compilation (bounded)
                    bad = 0
                    for off, c in enumerate(chunk):
                        st, inf = fn([c], start + off)
                        if st != "ok":
                            bad += 1
                            fail(c, label, "prophyc failed on a well-formed expression (%s): %s" % (st, str(inf)[:300]))
                            if bad >= 8:
                                break
            if len(res["samples"]) < 1 and chunk:
                res["samples"].append(chunk[len(chunk) // 2])
    finally:
        shutil.rmtree(work, ignore_errors=True)
    return res


def c14(tier, replay):
    rep = Report("C14", tier)
    rep.assumptions = [
        "spec/Expr.tla: ASTs with <= 1 operator over all leaves plus the precedence/associativity shapes with 2-3 "
        "operators; literals in decimal, hex and octal; two earlier constants; '/' only with non-negative dividend and "
        "positive divisor; values kept below 10^8 (TLC integers)",
        "each expression is compiled as constant, enumerator, array extent and discriminator, as minimally and as fully "
        "parenthesised text, in prophy syntax and (decimal/hex only) as raw isar text",
        "the C++ legs (enum values / array extents printed by a compiled TU) run in the thorough tier only"]
    cases, stats = expr_cases(tier)
    for st in stats:
        rep.add_tlc(st)
    jobs = _chunks(cases, NCPU)
    with ProcessPoolExecutor(max_workers=NCPU) as ex:
        results = list(ex.map(expr_worker, jobs, range(len(jobs)), [{"scratch": scratch_dir("expr")}] * len(jobs)))
    nt = 0
    for r in results:
        rep.count(r["n"])
        rep.validated(r["n"])
        nt += r["nontrivial"]
        for s in r["samples"]:
            rep.sample(s)
        for f in r["fails"]:
            rep.violation(f, shadows.match("C14", f))
    for k in range(nt):
        rep.nontrivial(k)
    rep.cov["rule"] = ("TLC enumerates the expression set of spec/Expr.tla and evaluates each; non-trivial = the "
                       "minimally parenthesised text differs from the fully parenthesised one")
    rep.cov["exhaustive"] = True
    return rep.finish()
