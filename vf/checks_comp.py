"""C12-C17, C20: the prophyc pipeline."""
import json
import os
import random
import shutil
import tempfile
from concurrent.futures import ProcessPoolExecutor

from . import compleg as CL, pyleg as P, schema as S, shadows, wire
from .common import Report, scratch_dir, seed, NCPU, MachineryError
from .tlcrun import run_tlc


def _chunks(xs, n):
    n = max(1, n)
    k = (len(xs) + n - 1) // n
    return [xs[i:i + k] for i in range(0, len(xs), k)] if xs else []


# ---------------------------------------------------------------------------
# C15
# ---------------------------------------------------------------------------
def topo_cases(tier):
    cases, stats = [], []

    def collect(tag, body):
        cases.append(json.loads(body))

    runs = [(3, None)] if tier == "quick" else [(3, None), (4, None)]
    for n, sim in runs:
        res = run_tlc("TopoSort", {"N": n, "Acyclic": "TRUE"},
                      invariants=["ResultCorrect", "AlwaysPermutation", "PrefixPlaced", "TDump"],
                      properties=["Termination"], spec="TSpec", prefix=("TOPO",), on_line=collect)
        stats.append(res.stats)
    if tier == "quick":
        # all labelled DAGs on 4 nodes x all orders, without the liveness pass, then sampled
        more = []
        res = run_tlc("TopoSort", {"N": 4, "Acyclic": "TRUE"},
                      invariants=["ResultCorrect", "AlwaysPermutation", "PrefixPlaced", "TDump"],
                      spec="TSpec", prefix=("TOPO",), on_line=lambda t, b: more.append(json.loads(b)))
        stats.append(res.stats)
        rnd = random.Random(seed())
        cases += rnd.sample(more, min(len(more), 1200))
    else:
        more = []
        res = run_tlc("TopoSort", {"N": 5, "Acyclic": "TRUE"},
                      invariants=["ResultCorrect", "AlwaysPermutation", "PrefixPlaced", "TDump"],
                      spec="TSpec", prefix=("TOPO",), on_line=lambda t, b: more.append(json.loads(b)),
                      simulate=400, depth=60, seed=seed())
        stats.append(res.stats)
        cases += more
    # the design-level hang: on cyclic graphs termination must be refuted
    res = run_tlc("TopoSort", {"N": 3, "Acyclic": "FALSE"}, properties=["TerminatesOnCycles"], spec="TSpec",
                  expect_violation=True)
    if res.ok or "TerminatesOnCycles was violated" not in (res.error or ""):
        raise MachineryError("TLC did not refute termination of the rotation sort on cyclic graphs: %s" % res.error)
    stats.append(res.stats)
    return cases, stats


def topo_worker(cases, lay_by_key, extra):
    res = {"fails": [], "n": 0, "samples": [], "nontrivial": 0}
    work = tempfile.mkdtemp(prefix="vftopo-", dir=extra.get("scratch"))
    try:
        for ci, c in enumerate(cases):
            deps = {i + 1: list(d) for i, d in enumerate(c["deps"])}
            order = list(c["input"])
            for variant in (0, 1):
                kinds = CL.assign_kinds(deps, variant)
                doc, nm = CL.isar_document(deps, order, kinds)
                sub = os.path.join(work, "c%d_%d" % (ci, variant))
                os.mkdir(sub)
                path = os.path.join(sub, "defs.xml")
                with open(path, "w") as f:
                    f.write(doc)
                res["n"] += 1
                if any(deps.values()):
                    res["nontrivial"] += 1
                base = {"check": "order", "deps": deps, "input": order, "kinds": kinds, "isar": doc, "variant": variant}
                status, nodes, _ = CL.run_main([path, "--isar", "--python_out", sub])
                if status != "ok":
                    res["fails"].append(dict(base, what="prophyc --isar failed on a valid acyclic input: %s" % (nodes,)))
                    continue
                names = [n.name for n in nodes["defs"]]
                want = sorted(nm(n) for n in deps)
                if sorted(names) != want:
                    res["fails"].append(dict(base, what="output lists %r, the input defines %r" % (names, want)))
                    continue
                pos = {n: names.index(nm(n)) for n in deps}
                bad = [(n, d) for n in deps for d in deps[n] if pos[d] > pos[n]]
                if bad:
                    n, d = bad[0]
                    res["fails"].append(dict(base, what="output order %r: %s comes before its dependency %s"
                                             % (names, nm(n), nm(d)), output=names))
                    continue
                try:
                    P.import_generated(sub, "defs")
                except P.CompileFailure as e:
                    res["fails"].append(dict(base, what="generated Python module does not import: %s" % e, output=names))
                    continue
                key = json.dumps([sorted(deps.items()), variant])
                lay, idx = lay_by_key[key]
                for node in nodes["defs"]:
                    n = int(node.name[1:])
                    if kinds[n] in ("struct", "union"):
                        w = lay[idx[str(n)] - 1] if isinstance(idx, dict) and str(n) in idx else lay[idx[n] - 1]
                        if (node.byte_size, node.alignment) != (w["size"], w["align"]):
                            res["fails"].append(dict(base, what="layout of %s is (%r, %r) for input order %r; layout "
                                                     "rules give (%d, %d)" % (node.name, node.byte_size, node.alignment,
                                                                              order, w["size"], w["align"])))
                if len(res["samples"]) < 1 and variant == 1 and len(deps) > 3:
                    res["samples"].append({"deps": deps, "input": order, "kinds": kinds, "output": names})
                shutil.rmtree(sub, ignore_errors=True)
    finally:
        shutil.rmtree(work, ignore_errors=True)
    return res


def c15(tier, replay):
    rep = Report("C15", tier)
    rep.assumptions = [
        "spec/TopoSort.tla: abstract requirement + the rotation algorithm, every DAG on <= 4 nodes x every input order "
        "(5 nodes by simulation in the thorough tier); termination refuted on cyclic graphs (vacuity guard)",
        "each (graph, order) is rendered as isar XML twice: all definitions structs (the input order reaches the sort "
        "unchanged) and mixed kinds (constants, enums, typedefs, structs, unions; isar regroups by kind)",
        "sack front-end not exercised"]
    cases, stats = topo_cases(tier)
    for st in stats:
        rep.add_tlc(st)
    # layouts from the specification for every distinct (graph, variant)
    keys, envs, idxs = [], [], []
    seen = set()
    for c in cases:
        deps = {i + 1: list(d) for i, d in enumerate(c["deps"])}
        for variant in (0, 1):
            key = json.dumps([sorted(deps.items()), variant])
            if key in seen:
                continue
            seen.add(key)
            kinds = CL.assign_kinds(deps, variant)
            defs, idx, _ = CL.schema_env_for_graph(deps, kinds)
            keys.append(key)
            envs.append(defs)
            idxs.append(idx)
    lays, st = wire.layout_of(envs)
    rep.add_tlc(st)
    lay_by_key = {}
    for key, l, idx in zip(keys, lays, idxs):
        if not l["legal"]:
            raise MachineryError("graph rendering produced an environment the specification calls illegal")
        lay_by_key[key] = (l["lay"], idx)
    jobs = _chunks(cases, NCPU)
    with ProcessPoolExecutor(max_workers=NCPU) as ex:
        results = list(ex.map(topo_worker, jobs, [lay_by_key] * len(jobs), [{"scratch": scratch_dir("topo")}] * len(jobs)))
    nt = 0
    for r in results:
        rep.count(r["n"])
        rep.validated(r["n"])
        nt += r["nontrivial"]
        for s in r["samples"]:
            rep.sample(s)
        for f in r["fails"]:
            rep.violation(f, shadows.match("C15", f))
    for k in range(nt):
        rep.nontrivial(k)
    rep.cov["rule"] = ("TLC enumerates every labelled DAG and every input permutation and proves the rotation sort "
                       "correct and terminating on them; each (DAG, permutation) is fed to prophyc --isar in two "
                       "renderings; non-trivial = graphs with at least one dependency edge")
    rep.cov["exhaustive"] = tier != "quick"
    return rep.finish()


# ---------------------------------------------------------------------------
# C14
# ---------------------------------------------------------------------------
def expr_cases(tier):
    cases = []
    depth = 2 if tier == "quick" else 3
    res = run_tlc("Expr", {"Depth": depth, "Lits": "{0, 1, 2, 5, 12}", "NameVals": "<- NV"},
                  invariants=["ValueSmall", "EDump"], spec="ESpec", prefix=("EXPR",),
                  on_line=lambda t, b: cases.append(json.loads(b)))
    return cases, [res.stats]


def _has_octal(text):
    import re
    return re.search(r"(?<![0-9A-Za-zx])0[0-7]+", text) is not None


def expr_worker(cases, wid, extra):
    """cases: list of {min, full, value, names}"""
    import prophyc.calc as calc
    res = {"fails": [], "n": 0, "samples": [], "nontrivial": 0, "n_cpp": 0}
    work = tempfile.mkdtemp(prefix="vfexpr-", dir=extra.get("scratch"))
    names = cases[0]["names"] if cases else []
    kvars = {"K%d" % (i + 1): v for i, v in enumerate(names)}
    pre = "".join("const K%d = %d;\n" % (i + 1, v) for i, v in enumerate(names))

    def fail(c, ctx, what):
        res["fails"].append({"check": "expr", "what": what, "context": ctx, "min": c["min"], "full": c["full"],
                             "value": c["value"]})

    def decls(i, c, text, tag):
        v = c["value"]
        out = ["const %s%d = %s;" % (tag, i, text)]
        if 0 <= v < 2 ** 32:
            out.append("enum E%s%d { E%s%d_a = %s };" % (tag, i, tag, i, text))
            out.append("union U%s%d { %s: u8 a; };" % (tag, i, text))
        if 1 <= v <= 64:
            out.append("struct S%s%d { u8 a[%s]; };" % (tag, i, text))
        return out

    def check_prophy(chunk, base_i):
        text = pre
        for off, c in enumerate(chunk):
            i = base_i + off
            text += "\n".join(decls(i, c, c["min"], "M") + decls(i, c, c["full"], "F")) + "\n"
        sub = tempfile.mkdtemp(prefix="p", dir=work)
        path = os.path.join(sub, "e.prophy")
        with open(path, "w") as f:
            f.write(text)
        status, nodes, _ = CL.run_main([path, "--python_out", sub])
        if status != "ok":
            return status, nodes
        try:
            mod = P.import_generated(sub, "e")
        except P.CompileFailure as e:
            return "import", str(e)
        by = {n.name: n for n in nodes["e"]}
        for off, c in enumerate(chunk):
            i, v = base_i + off, c["value"]
            for tag, txt in (("M", c["min"]), ("F", c["full"])):
                node = by["%s%d" % (tag, i)]
                if str(node.value) != str(v):
                    fail(c, "prophy const (%s)" % txt, "model constant value is %r, the expression denotes %d" % (node.value, v))
                got = getattr(mod, "%s%d" % (tag, i))
                if got != v or isinstance(got, float):
                    fail(c, "python const (%s)" % txt, "generated Python constant is %r, the expression denotes %d" % (got, v))
                if 0 <= v < 2 ** 32:
                    ev = getattr(mod, "E%s%d_a" % (tag, i))
                    if ev != v:
                        fail(c, "enumerator (%s)" % txt, "generated enumerator value is %r, expected %d" % (ev, v))
                    u = getattr(mod, "U%s%d" % (tag, i))
                    if u._descriptor[0].discriminator != v:
                        fail(c, "discriminator (%s)" % txt, "union discriminator is %r, expected %d"
                             % (u._descriptor[0].discriminator, v))
                if 1 <= v <= 64:
                    snode = by["S%s%d" % (tag, i)]
                    if snode.byte_size != v:
                        fail(c, "array size (%s)" % txt, "model size of 'u8 a[%s]' is %r, expected %d" % (txt, snode.byte_size, v))
                    if getattr(mod, "S%s%d" % (tag, i))._SIZE != v:
                        fail(c, "array size (%s)" % txt, "python _SIZE of 'u8 a[%s]' is %r, expected %d"
                             % (txt, getattr(mod, "S%s%d" % (tag, i))._SIZE, v))
        shutil.rmtree(sub, ignore_errors=True)
        return "ok", None

    def check_isar(chunk, base_i):
        elems = ['<constant name="K%d" value="%d"/>' % (i + 1, v) for i, v in enumerate(names)]
        used = []
        for off, c in enumerate(chunk):
            i = base_i + off
            for tag, txt in (("M", c["min"]), ("F", c["full"])):
                if _has_octal(txt):
                    continue
                used.append((i, tag, txt, c))
                elems.append('<constant name="%s%d" value="%s"/>' % (tag, i, CL.xml_escape(txt)))
                if 1 <= c["value"] <= 64:
                    elems.append('<struct name="S%s%d"><member name="a" type="u8"><dimension size="%s"/></member></struct>'
                                 % (tag, i, CL.xml_escape(txt)))
        sub = tempfile.mkdtemp(prefix="i", dir=work)
        path = os.path.join(sub, "e.xml")
        with open(path, "w") as f:
            f.write("<x>\n%s\n</x>\n" % "\n".join(elems))
        status, nodes, _ = CL.run_main([path, "--isar", "--python_out", sub])
        if status != "ok":
            return status, nodes
        try:
            mod = P.import_generated(sub, "e")
        except P.CompileFailure as e:
            return "import", str(e)
        by = {n.name: n for n in nodes["e"]}
        for i, tag, txt, c in used:
            v = c["value"]
            got = getattr(mod, "%s%d" % (tag, i))
            if got != v or isinstance(got, float):
                fail(c, "isar -> python const (%s)" % txt, "the Python module evaluates the constant to %r, the expression "
                     "denotes %d" % (got, v))
            if 1 <= v <= 64 and by["S%s%d" % (tag, i)].byte_size != v:
                fail(c, "isar array size (%s)" % txt, "model size is %r, expected %d" % (by["S%s%d" % (tag, i)].byte_size, v))
        shutil.rmtree(sub, ignore_errors=True)
        return "ok", None

    try:
        size = 150
        for start in range(0, len(cases), size):
            chunk = cases[start:start + size]
            for c in chunk:
                res["n"] += 1
                if c["min"] != c["full"].strip("()"):
                    res["nontrivial"] += 1
                # the model-time evaluator, directly
                for txt in (c["min"], c["full"]):
                    if _has_octal(txt):
                        continue
                    try:
                        got = calc.eval(txt, dict(kvars))
                    except BaseException as e:  # noqa
                        got = "%s: %s" % (type(e).__name__, e)
                    if got != c["value"] or isinstance(got, float):
                        fail(c, "calc.eval(%s)" % txt, "model-time evaluator gives %r, the expression denotes %d" % (got, c["value"]))
            for fn, label in ((check_prophy, "prophy"), (check_isar, "isar")):
                status, info = fn(chunk, start)
                if status != "ok":
                    # isolate: one expression per compilation (bounded)
                    bad = 0
                    for off, c in enumerate(chunk):
                        st, inf = fn([c], start + off)
                        if st != "ok":
                            bad += 1
                            fail(c, label, "prophyc failed on a well-formed expression (%s): %s" % (st, str(inf)[:300]))
                            if bad >= 8:
                                break
            if len(res["samples"]) < 1 and chunk:
                res["samples"].append(chunk[len(chunk) // 2])
    finally:
        shutil.rmtree(work, ignore_errors=True)
    return res


def c14(tier, replay):
    rep = Report("C14", tier)
    rep.assumptions = [
        "spec/Expr.tla: ASTs with <= 1 operator over all leaves plus the precedence/associativity shapes with 2-3 "
        "operators; literals in decimal, hex and octal; two earlier constants; '/' only with non-negative dividend and "
        "positive divisor; values kept below 10^8 (TLC integers)",
        "each expression is compiled as constant, enumerator, array extent and discriminator, as minimally and as fully "
        "parenthesised text, in prophy syntax and (decimal/hex only) as raw isar text",
        "the C++ legs (enum values / array extents printed by a compiled TU) run in the thorough tier only"]
    cases, stats = expr_cases(tier)
    for st in stats:
        rep.add_tlc(st)
    jobs = _chunks(cases, NCPU)
    with ProcessPoolExecutor(max_workers=NCPU) as ex:
        results = list(ex.map(expr_worker, jobs, range(len(jobs)), [{"scratch": scratch_dir("expr")}] * len(jobs)))
    nt = 0
    for r in results:
        rep.count(r["n"])
        rep.validated(r["n"])
        nt += r["nontrivial"]
        for s in r["samples"]:
            rep.sample(s)
        for f in r["fails"]:
            rep.violation(f, shadows.match("C14", f))
    for k in range(nt):
        rep.nontrivial(k)
    rep.cov["rule"] = ("TLC enumerates the expression set of spec/Expr.tla and evaluates each; non-trivial = the "
                       "minimally parenthesised text differs from the fully parenthesised one")
    rep.cov["exhaustive"] = True
    return rep.finish()


# ---------------------------------------------------------------------------
# C16 / C20: multi-file schemas (spec/FileProc.tla)
# ---------------------------------------------------------------------------
FP_INVARIANTS = ["ReadOnce", "DirsDiscipline", "DirsRestored", "ResolutionDeclarative", "MissingReported", "FDump"]


def fileproc_cases():
    cases = []
    res = run_tlc("FileProc", {}, invariants=FP_INVARIANTS, properties=["Terminates"], spec="FSpec", prefix=("FCFG",),
                  on_line=lambda t, b: cases.append(json.loads(b)))
    return cases, [res.stats]


DECL = {
    "A": "const CA = 3;\nenum EA { EA_x = 1, EA_y = 5 };\nstruct SA { u8 x[CA]; EA e; };\n",
}


def file_texts(cfg, with_includes=True):
    """The three source files of a configuration.  A file uses the types of a
    file it includes directly (and only then)."""
    incs = cfg["incs"]

    def inc_lines(f):
        return "".join('#include "%s.prophy"\n' % leaf for leaf in incs[f]) if with_includes else ""
    a = inc_lines("A") + DECL["A"]
    b = inc_lines("B") + "struct SB { %su16 y; u64 z; };\n" % ("SA a; " if "A" in incs["B"] else "")
    m = inc_lines("M") + "struct SM { %s%su8 t; i16 w<>; };\n" % ("SA a; " if "A" in incs["M"] else "",
                                                                   "SB b; " if "B" in incs["M"] else "")
    return {"A": a, "B": b, "M": m}


def single_file_text(cfg):
    t = file_texts(cfg, with_includes=False)
    return t["A"] + t["B"] + t["M"]


def materialise(cfg, root):
    """-> {file: absolute path}"""
    texts = file_texts(cfg)
    paths = {}
    for d in ("d0", "d1", "d2", "out", "single", "elsewhere"):
        os.makedirs(os.path.join(root, d), exist_ok=True)
    for f in ("M", "A", "B"):
        d = "d0" if f == "M" else cfg["dirOf"][f]
        paths[f] = os.path.join(root, d, f + ".prophy")
        with open(paths[f], "w") as fh:
            fh.write(texts[f])
    with open(os.path.join(root, "single", "ALL.prophy"), "w") as fh:
        fh.write(single_file_text(cfg))
    return paths


_opens = {}


def _audit(event, args):
    if event == "open" and args and isinstance(args[0], str) and args[0].endswith(".prophy"):
        _opens[os.path.abspath(args[0])] = _opens.get(os.path.abspath(args[0]), 0) + 1


_audit_installed = [False]


def load_package(outdir, pkg, stems):
    """Import generated modules that use relative imports ('from .A import')."""
    import importlib
    import sys
    with open(os.path.join(outdir, "__init__.py"), "w"):
        pass
    parent = os.path.dirname(outdir)
    sys.path.insert(0, parent)
    try:
        importlib.invalidate_caches()
        return {s: importlib.import_module("%s.%s" % (os.path.basename(outdir), s)) for s in stems}
    finally:
        sys.path.remove(parent)


def include_worker(cases, wid, extra):
    import sys
    res = {"fails": [], "n": 0, "samples": [], "nontrivial": 0, "n_ok": 0, "n_diag": 0}
    if not _audit_installed[0]:
        sys.addaudithook(_audit)
        _audit_installed[0] = True
    base = tempfile.mkdtemp(prefix="vfinc-", dir=extra.get("scratch"))
    try:
        for ci, cfg in enumerate(cases):
            root = os.path.join(base, "w%d_c%d" % (wid, ci))
            os.makedirs(root)
            paths = materialise(cfg, root)
            out = os.path.join(root, "out%d_%d" % (wid, ci))
            os.makedirs(out)
            idirs = []
            for d in cfg["idirs"]:
                idirs += ["-I", os.path.join(root, d)]
            # cwd arrangement: absolute paths from elsewhere, or relative from the main's directory
            rel = (ci % 2 == 0)
            old = os.getcwd()
            if rel:
                os.chdir(os.path.join(root, "d0"))
                argv_files = [os.path.relpath(paths[f]) for f in cfg["mains"]]
            else:
                os.chdir(os.path.join(root, "elsewhere"))
                argv_files = [paths[f] for f in cfg["mains"]]
            _opens.clear()
            try:
                status, nodes, _ = CL.run_main(argv_files + idirs + ["--python_out", out])
            finally:
                os.chdir(old)
            opens = dict(_opens)
            res["n"] += 1
            expect_ok = not cfg["errors"]
            basef = {"check": "include", "config": {k: cfg[k] for k in ("dirOf", "idirs", "incs", "mains")},
                     "expected_errors": cfg["errors"], "relative_paths": rel}
            if len(cfg["incs"]["M"]) > 1 or cfg["incs"]["B"]:
                res["nontrivial"] += 1
            if not expect_ok:
                res["n_diag"] += 1
                if status == "ok":
                    res["fails"].append(dict(basef, what="prophyc succeeded although the specification reports %r"
                                             % (cfg["errors"],)))
                elif status == "internal":
                    res["fails"].append(dict(basef, what="missing/cyclic include ended in an internal exception: %s" % nodes))
                else:
                    text = str(nodes)
                    kinds = set(e[0] for e in cfg["errors"])
                    if "cyclic" in kinds and "included again" not in text and "not found" not in text:
                        res["fails"].append(dict(basef, what="diagnostic does not mention the cyclic include: %s" % text[:300]))
                    if kinds == {"missing"} and "not found" not in text:
                        res["fails"].append(dict(basef, what="diagnostic does not mention the missing file: %s" % text[:300]))
                shutil.rmtree(root, ignore_errors=True)
                continue
            res["n_ok"] += 1
            if status != "ok":
                res["fails"].append(dict(basef, what="prophyc failed on a well-formed multi-file schema: %s" % (nodes,)))
                shutil.rmtree(root, ignore_errors=True)
                continue
            for f in ("M", "A", "B"):
                got = opens.get(os.path.abspath(paths[f]), 0)
                if got != cfg["reads"][f]:
                    res["fails"].append(dict(basef, what="file %s was opened %d time(s); the specification reads it %d time(s)"
                                             % (f, got, cfg["reads"][f])))
            # equivalence with the single file
            if set(cfg["mains"]) == {"M", "A", "B"}:
                sdir = os.path.join(root, "single")
                st2, nodes2, _ = CL.run_main([os.path.join(sdir, "ALL.prophy"), "--python_out", sdir])
                if st2 != "ok":
                    raise RuntimeError("single-file rendering does not compile: %s" % (nodes2,))
                try:
                    mods = load_package(out, "p", ["A", "B", "M"])
                    single = P.import_generated(sdir, "ALL")
                except Exception as e:  # noqa
                    res["fails"].append(dict(basef, what="generated per-file modules do not import: %s" % P.exc_text(e)))
                    shutil.rmtree(root, ignore_errors=True)
                    continue
                sn = {n.name: n for n in nodes2["ALL"]}
                for stem in ("A", "B", "M"):
                    for n in nodes[stem]:
                        if hasattr(n, "byte_size") and n.name in sn:
                            if (n.byte_size, n.alignment, n.kind) != (sn[n.name].byte_size, sn[n.name].alignment, sn[n.name].kind):
                                res["fails"].append(dict(basef, what="layout of %s differs: multi-file (%r,%r,%r), single file (%r,%r,%r)"
                                                         % (n.name, n.byte_size, n.alignment, n.kind, sn[n.name].byte_size,
                                                            sn[n.name].alignment, sn[n.name].kind)))
                if mods["A"].CA != single.CA:
                    res["fails"].append(dict(basef, what="constant CA differs"))
                x, y = mods["M"].SM(), single.SM()
                for msg in (x, y):
                    msg.t = 7
                    msg.w[:] = [1, -2]
                    if "A" in cfg["incs"]["M"]:
                        msg.a.x[:] = [1, 2, 3]
                        msg.a.e = "EA_y"
                    if "B" in cfg["incs"]["M"]:
                        msg.b.y = 513
                        msg.b.z = 2 ** 40
                if x.encode("<") != y.encode("<") or x.encode(">") != y.encode(">"):
                    res["fails"].append(dict(basef, what="encodings differ: multi-file %s, single file %s"
                                             % (x.encode("<").hex(), y.encode("<").hex())))
            if len(res["samples"]) < 1:
                res["samples"].append({"config": basef["config"], "reads": cfg["reads"], "opened": {os.path.basename(k): v for k, v in opens.items()}})
            shutil.rmtree(root, ignore_errors=True)
    finally:
        shutil.rmtree(base, ignore_errors=True)
    return res


def c16(tier, replay):
    rep = Report("C16", tier)
    rep.assumptions = [
        "spec/FileProc.tla: three files (main M, includable A and B), their directories, the -I list, include lists incl. "
        "duplicates, a missing file, cyclic and self includes, and the command-line order - 8064 configurations, all "
        "model-checked (ReadOnce, DirsDiscipline, DirsRestored, ResolutionDeclarative, MissingReported, Terminates)",
        "file opens are counted with sys.addaudithook; relative paths from the main's directory alternate with absolute "
        "paths from another working directory",
        "the declarations inside the files are fixed (constant, enum, three structs); a file uses another file's types "
        "iff it includes it directly"]
    cases, stats = fileproc_cases()
    for st in stats:
        rep.add_tlc(st)
    rnd = random.Random(seed())
    ok_cases = [c for c in cases if not c["errors"]]
    bad_cases = [c for c in cases if c["errors"]]
    n = 500 if tier == "quick" else 6000
    pick = rnd.sample(ok_cases, min(len(ok_cases), n)) + rnd.sample(bad_cases, min(len(bad_cases), n))
    jobs = _chunks(pick, NCPU)
    with ProcessPoolExecutor(max_workers=NCPU) as ex:
        results = list(ex.map(include_worker, jobs, range(len(jobs)), [{"scratch": scratch_dir("inc")}] * len(jobs)))
    nt = 0
    for r in results:
        rep.count(r["n"])
        rep.validated(r["n"])
        nt += r["nontrivial"]
        rep.cov["configs_ok"] = rep.cov.get("configs_ok", 0) + r["n_ok"]
        rep.cov["configs_with_diagnostic"] = rep.cov.get("configs_with_diagnostic", 0) + r["n_diag"]
        for s in r["samples"]:
            rep.sample(s)
        for f in r["fails"]:
            rep.violation(f, shadows.match("C16", f))
    for k in range(nt):
        rep.nontrivial(k)
    rep.cov["configurations_model_checked"] = len(cases)
    rep.cov["rule"] = ("TLC enumerates and model-checks every configuration of spec/FileProc.tla and dumps the expected "
                       "diagnostics, read counts and include resolution; a seeded sample is materialised on disk and "
                       "compiled; non-trivial = more than one include or a nested include")
    rep.cov["exhaustive"] = False
    return rep.finish()


def _snapshot(outdir):
    out = {}
    for name in sorted(os.listdir(outdir)):
        p = os.path.join(outdir, name)
        if os.path.isfile(p):
            with open(p, "rb") as f:
                out[name] = f.read()
    return out


def determinism_worker(cases, wid, extra):
    import itertools
    res = {"fails": [], "n": 0, "samples": [], "nontrivial": 0, "runs": 0}
    base = tempfile.mkdtemp(prefix="vfdet-", dir=extra.get("scratch"))
    try:
        for ci, cfg in enumerate(cases):
            root = os.path.join(base, "c%d" % ci)
            os.makedirs(root)
            paths = materialise(cfg, root)
            idirs = []
            for d in cfg["idirs"]:
                idirs += ["-I", os.path.join(root, d)]
            mains = list(cfg["mains"])

            def run(order, hashseed, cwd, tag, alone=False):
                out = os.path.join(root, "o_" + tag)
                os.makedirs(out)
                files = [paths[f] if cwd != "d0" else os.path.relpath(paths[f], os.path.join(root, "d0")) for f in order]
                argv = files + idirs + ["--python_out", out, "--cpp_out", out, "--cpp_full_out", out, "--prophy_out", out]
                rc, text = CL.run_cli(argv, cwd=os.path.join(root, cwd), env={"PYTHONHASHSEED": hashseed})
                res["runs"] += 1
                return rc, text, _snapshot(out)

            rc, text, ref = run(mains, "0", "d0", "ref")
            res["n"] += 1
            basef = {"check": "determinism", "config": {k: cfg[k] for k in ("dirOf", "idirs", "incs", "mains")}}
            if rc != 0:
                res["fails"].append(dict(basef, what="baseline run failed (rc=%s): %s" % (rc, text[-300:])))
                continue
            variants = [(mains, "0", "d0", "repeat"), (mains, "1", "d0", "seed1"), (mains, "2", "elsewhere", "seed2_cwd"),
                        (mains, "random", "d0", "seedrandom")]
            if len(mains) > 1:
                res["nontrivial"] += 1
                perms = [list(p) for p in itertools.permutations(mains) if list(p) != mains]
                for k, p in enumerate(perms[:3]):
                    variants.append((p, str(k + 3), "elsewhere" if k % 2 else "d0", "order%d" % k))
            for order, hs, cwd, tag in variants:
                rc, text, snap = run(order, hs, cwd, tag)
                if rc != 0:
                    res["fails"].append(dict(basef, what="run %s (order %r, PYTHONHASHSEED=%s, cwd=%s) failed: %s"
                                             % (tag, order, hs, cwd, text[-300:])))
                    continue
                if snap != ref:
                    diff = sorted(n for n in set(ref) | set(snap) if ref.get(n) != snap.get(n))
                    res["fails"].append(dict(basef, what="outputs differ from the reference run for order %r, "
                                             "PYTHONHASHSEED=%s, cwd=%s: %s" % (order, hs, cwd, diff)))
            # compiling one file never changes what is generated for another
            for f in mains:
                rc, text, snap = run([f], "0", "d0", "alone_" + f)
                if rc != 0:
                    res["fails"].append(dict(basef, what="compiling %s alone failed: %s" % (f, text[-300:])))
                    continue
                for name, data in snap.items():
                    if ref.get(name) != data:
                        res["fails"].append(dict(basef, what="%s differs when %s is compiled alone vs together with %r"
                                                 % (name, f, mains)))
            if len(res["samples"]) < 1:
                res["samples"].append({"config": basef["config"], "files": sorted(ref), "variants": [v[3] for v in variants]})
            shutil.rmtree(root, ignore_errors=True)
    finally:
        shutil.rmtree(base, ignore_errors=True)
    return res


def c20(tier, replay):
    rep = Report("C20", tier)
    rep.assumptions = [
        "configurations (file placement, -I list, include lists, command-line order) are those of spec/FileProc.tla whose "
        "model-checked behaviour reports no error; ResolutionDeclarative is the design-level form of order independence",
        "each configuration is compiled by `python -m prophyc` subprocesses with all four back-ends: twice identically, "
        "with PYTHONHASHSEED 1, 2 and random, from another working directory with absolute paths, with the command-line "
        "order permuted, and each input alone; all generated files are compared byte for byte"]
    cases, stats = fileproc_cases()
    for st in stats:
        rep.add_tlc(st)
    rnd = random.Random(seed())
    ok_cases = [c for c in cases if not c["errors"]]
    multi = [c for c in ok_cases if len(c["mains"]) > 1]
    single = [c for c in ok_cases if len(c["mains"]) == 1]
    n = 40 if tier == "quick" else 600
    pick = rnd.sample(multi, min(len(multi), n)) + rnd.sample(single, min(len(single), n // 4))
    jobs = _chunks(pick, NCPU)
    with ProcessPoolExecutor(max_workers=NCPU) as ex:
        results = list(ex.map(determinism_worker, jobs, range(len(jobs)), [{"scratch": scratch_dir("det")}] * len(jobs)))
    nt = 0
    for r in results:
        rep.count(r["runs"])
        rep.validated(r["n"])
        nt += r["nontrivial"]
        for s in r["samples"]:
            rep.sample(s)
        for f in r["fails"]:
            rep.violation(f, shadows.match("C20", f))
    for k in range(nt):
        rep.nontrivial(k)
    rep.cov["configurations_model_checked"] = len(cases)
    rep.cov["configurations_run"] = len(pick)
    rep.cov["rule"] = ("configurations from TLC (spec/FileProc.tla) x {repeat, hash seeds, working directory, "
                       "command-line permutations, single-input runs}; evaluations = prophyc subprocess runs; "
                       "non-trivial = configurations with several main files")
    rep.cov["exhaustive"] = False
    return rep.finish()
