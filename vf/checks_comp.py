"""C12-C17, C20: the prophyc pipeline."""
import json
import os
import random
import shutil
import tempfile
from concurrent.futures import ProcessPoolExecutor

from . import compleg as CL, pyleg as P, schema as S, shadows, wire
from .common import watchdog_install, watchdog_start, watchdog_stop, Report, scratch_dir, seed, NCPU, MachineryError
from .tlcrun import run_tlc


def _chunks(xs, n):
    n = max(1, n)
    k = (len(xs) + n - 1) // n
    return [xs[i:i + k] for i in range(0, len(xs), k)] if xs else []


# ---------------------------------------------------------------------------
# C15
# ---------------------------------------------------------------------------
def topo_cases(tier):
    cases, stats = [], []

    def collect(tag, body):
        cases.append(json.loads(body))

    runs = [(3, None)] if tier == "quick" else [(3, None), (4, None)]
    for n, sim in runs:
        res = run_tlc("TopoSort", {"N": n, "Acyclic": "TRUE"},
                      invariants=["ResultCorrect", "AlwaysPermutation", "PrefixPlaced", "TDump"],
                      properties=["Termination"], spec="TSpec", prefix=("TOPO",), on_line=collect)
        stats.append(res.stats)
    if tier == "quick":
        # all labelled DAGs on 4 nodes x all orders, without the liveness pass, then sampled
        more = []
        res = run_tlc("TopoSort", {"N": 4, "Acyclic": "TRUE"},
                      invariants=["ResultCorrect", "AlwaysPermutation", "PrefixPlaced", "TDump"],
                      spec="TSpec", prefix=("TOPO",), on_line=lambda t, b: more.append(json.loads(b)))
        stats.append(res.stats)
        rnd = random.Random(seed())
        cases += rnd.sample(more, min(len(more), 1200))
    # (5 nodes: 29,281 labelled DAGs x 120 orders are too many initial states for TLC's simulation mode)
    # the design-level hang: on cyclic graphs termination must be refuted
    res = run_tlc("TopoSort", {"N": 3, "Acyclic": "FALSE"}, properties=["TerminatesOnCycles"], spec="TSpec",
                  expect_violation=True)
    if res.ok or "TerminatesOnCycles was violated" not in (res.error or ""):
        raise MachineryError("TLC did not refute termination of the rotation sort on cyclic graphs: %s" % res.error)
    stats.append(res.stats)
    return cases, stats


def topo_worker(cases, lay_by_key, extra):
    res = {"fails": [], "n": 0, "samples": [], "nontrivial": 0}
    work = tempfile.mkdtemp(prefix="vftopo-", dir=extra.get("scratch"))
    try:
        for ci, c in enumerate(cases):
            deps = {i + 1: list(d) for i, d in enumerate(c["deps"])}
            order = list(c["input"])
            for variant in (0, 1, 2):
                kinds = CL.assign_kinds(deps, variant)
                doc, nm = CL.isar_document(deps, order, kinds)
                # (the directory doubles as a package name: unique within the process)
                sub = os.path.join(work, "c%s_%d_%d" % ("".join(ch if ch.isalnum() else "x" for ch in os.path.basename(work)[-8:]), ci, variant))
                os.mkdir(sub)
                # 0..3 included files in front of the definitions: include nodes are part of the list that is sorted
                n_inc = (ci + variant) % 4
                for q in range(n_inc):
                    with open(os.path.join(sub, "zinc%d.xml" % q), "w") as f:
                        f.write('<x><constant name="ZINC%d" value="%d"/><struct name="ZincS%d"><member name="q" type="u8"/></struct></x>' % (q, q, q))
                if n_inc:
                    doc = doc.replace("<definitions>", '<definitions xmlns:xi="http://www.w3.org/2001/XInclude">' + "".join(
                        '<xi:include href="zinc%d.xml"/>' % q for q in range(n_inc)), 1)
                path = os.path.join(sub, "defs.xml")
                with open(path, "w") as f:
                    f.write(doc)
                res["n"] += 1
                if any(deps.values()):
                    res["nontrivial"] += 1
                base = {"check": "order", "deps": deps, "input": order, "kinds": kinds, "isar": doc, "variant": variant,
                        "included_files": n_inc}
                status, nodes, _ = CL.run_main([path] + [os.path.join(sub, "zinc%d.xml" % q) for q in range(n_inc)] +
                                               ["--isar", "--python_out", sub])
                if status != "ok":
                    res["fails"].append(dict(base, what="prophyc --isar failed on a valid acyclic input: %s" % (nodes,)))
                    continue
                names = [n.name for n in nodes["defs"] if type(n).__name__ != "Include"]
                want = sorted(nm(n) for n in deps)
                if sorted(names) != want:
                    res["fails"].append(dict(base, what="output lists %r, the input defines %r" % (names, want)))
                    continue
                pos = {n: names.index(nm(n)) for n in deps}
                bad = [(n, d) for n in deps for d in deps[n] if pos[d] > pos[n]]
                if bad:
                    n, d = bad[0]
                    res["fails"].append(dict(base, what="output order %r: %s comes before its dependency %s"
                                             % (names, nm(n), nm(d)), output=names))
                    continue
                try:
                    if n_inc:
                        # (a module that has includes imports them relatively: a package)
                        try:
                            load_package(sub, "p", ["zinc%d" % q for q in range(n_inc)] + ["defs"])
                        except Exception as e:  # noqa
                            raise P.CompileFailure("import", P.exc_text(e))
                    else:
                        P.import_generated(sub, "defs")
                except P.CompileFailure as e:
                    res["fails"].append(dict(base, what="generated Python module does not import: %s" % e, output=names))
                    continue
                key = json.dumps([sorted(deps.items()), variant])
                lay, idx = lay_by_key[key]
                for node in nodes["defs"]:
                    if type(node).__name__ == "Include":
                        continue
                    n = int(node.name[1:])
                    if kinds[n] in ("struct", "union"):
                        w = lay[idx[str(n)] - 1] if isinstance(idx, dict) and str(n) in idx else lay[idx[n] - 1]
                        if (node.byte_size, node.alignment) != (w["size"], w["align"]):
                            res["fails"].append(dict(base, what="layout of %s is (%r, %r) for input order %r; layout "
                                                     "rules give (%d, %d)" % (node.name, node.byte_size, node.alignment,
                                                                              order, w["size"], w["align"])))
                if len(res["samples"]) < 1 and variant == 1 and len(deps) > 3:
                    res["samples"].append({"deps": deps, "input": order, "kinds": kinds, "output": names})
                shutil.rmtree(sub, ignore_errors=True)
    finally:
        shutil.rmtree(work, ignore_errors=True)
    return res


def include_name_cases():
    """An isar include is a node of the model too, named after its file: a file
    called like a local type must not count as that type (every order of the
    three local definitions)."""
    import itertools
    import prophyc.model as pm
    fails = []
    work = tempfile.mkdtemp(prefix="vfincn-", dir=scratch_dir("topo"))
    try:
        with open(os.path.join(work, "S.xml"), "w") as f:
            f.write('<x><struct name="Other"><member name="q" type="u8"/></struct></x>')
        elems = {"S": '<struct name="S"><member name="a" type="u16"/></struct>',
                 "User": '<struct name="User"><member name="s" type="S"/><member name="t" type="TS"/></struct>',
                 "TS": '<typedef name="TS" type="S"/>'}
        for order in itertools.permutations(sorted(elems)):
            doc = ('<x xmlns:xi="http://www.w3.org/2001/XInclude"><xi:include href="S.xml"/>%s</x>'
                   % "".join(elems[k] for k in order))
            path = os.path.join(work, "main.xml")
            with open(path, "w") as f:
                f.write(doc)
            status, nodes, _ = CL.run_main([path, "--isar", "--python_out", work])
            base = {"check": "order", "isar": doc}
            if status != "ok":
                fails.append(dict(base, what="prophyc --isar failed on a valid input with an include: %s" % (nodes,)))
                continue
            names = [n.name for n in nodes["main"] if not isinstance(n, pm.Include)]
            if sorted(names) != ["S", "TS", "User"] or not (names.index("S") < names.index("TS") < names.index("User")):
                fails.append(dict(base, what="output order %r with an include named S.xml: S, TS, User must come in this "
                                             "order" % (names,), output=names))
    finally:
        shutil.rmtree(work, ignore_errors=True)
    return fails


def sack_cases(tier):
    """spec/DemandSort.tla: every DAG x linear extension x hidden set"""
    cases, stats = [], []
    for n in ((3,) if tier == "quick" else (3, 4)):
        res = run_tlc("DemandSort", {"N": n},
                      invariants=["NoDuplicate", "OrderedSoFar", "KnownIsOut", "StackFresh", "ResultComplete",
                                  "OnlyExpected", "DDump"],
                      properties=["DTermination"] if n == 3 else [], spec="DSpec", prefix=("DSORT",),
                      on_line=lambda t, b: cases.append(json.loads(b)))
        if not res.ok:
            raise MachineryError("DemandSort: %s" % res.error)
        stats.append(res.stats)
    return cases, stats


def sack_worker(cases, lay_by_key, extra):
    res = {"fails": [], "n": 0, "samples": [], "nontrivial": 0, "same_sequence": 0, "other_sequence": 0}
    work = tempfile.mkdtemp(prefix="vfsack-", dir=extra.get("scratch"))
    try:
        for ci, c in enumerate(cases):
            deps = {i + 1: list(d) for i, d in enumerate(c["deps"])}
            src, hidden, model_out = list(c["src"]), set(c["hidden"]), list(c["result"])
            kinds = CL.sack_kinds(deps, hidden)
            n_inc = (ci + len(hidden)) % 3 if len(src) > 2 else 0
            main, inc = CL.sack_header(deps, src, kinds, n_inc)
            sub = os.path.join(work, "s%d" % ci)
            os.makedirs(os.path.join(sub, "incdir"))
            path = os.path.join(sub, "defs.hpp")
            with open(path, "w") as f:
                f.write(main)
            if inc:
                with open(os.path.join(sub, "incdir", "inc.hpp"), "w") as f:
                    f.write(inc)
            res["n"] += 1
            if any(deps.values()):
                res["nontrivial"] += 1
            base = {"check": "sack order", "deps": deps, "src": src, "hidden": sorted(hidden), "header": main,
                    "included_header": inc, "kinds": {k: list(v) for k, v in kinds.items()}}
            status, nodes, errtext = CL.run_main([path, "--sack", "-I", os.path.join(sub, "incdir"), "--python_out", sub])
            if status != "ok":
                res["fails"].append(dict(base, what="prophyc --sack failed on a valid header: %s %s" % (nodes, errtext[:300])))
                continue
            names = [x.name for x in nodes["defs"] if type(x).__name__ != "Include"]
            nm = {n: CL.sack_model_name(n, kinds) for n in deps}
            want = sorted(nm[n] for n in model_out)
            if sorted(names) != want:
                res["fails"].append(dict(base, what="output lists %r; the definitions visible at the top level and "
                                         "everything they use are %r (each exactly once)" % (names, want), output=names))
                continue
            pos = {n: names.index(nm[n]) for n in model_out}
            bad = [(n, d) for n in model_out for d in deps[n] if pos[d] > pos[n]]
            if bad:
                n, d = bad[0]
                res["fails"].append(dict(base, what="output order %r: %s comes before its dependency %s"
                                         % (names, nm[n], nm[d]), output=names))
                continue
            res["same_sequence" if names == [nm[n] for n in model_out] else "other_sequence"] += 1
            try:
                P.import_generated(sub, "defs")
            except P.CompileFailure as e:
                res["fails"].append(dict(base, what="generated Python module does not import: %s" % e, output=names))
                continue
            lay, idx = lay_by_key[json.dumps([sorted(deps.items()), sorted(hidden)])]
            by_name = {x.name: x for x in nodes["defs"] if type(x).__name__ != "Include"}
            for n in model_out:
                node = by_name[nm[n]]
                w = lay[idx[n] - 1]
                got = (node.byte_size, node.alignment) if kinds[n][0] != "enum" else (4, 4)
                if got != (w["size"], w["align"]):
                    res["fails"].append(dict(base, what="layout of %s is %r for header order %r; layout rules give "
                                             "(%d, %d)" % (node.name, got, src, w["size"], w["align"])))
            if len(res["samples"]) < 1 and len(model_out) > 2 and hidden:
                res["samples"].append({"deps": deps, "src": src, "hidden": sorted(hidden), "output": names})
            shutil.rmtree(sub, ignore_errors=True)
            # the same graph twice under the same names in two namespaces (references unqualified / elaborated)
            tkey = json.dumps([sorted(deps.items()), sorted(hidden), "twin"])
            if tkey in lay_by_key:
                tlay, tidx = lay_by_key[tkey]
                text = CL.sack_twin_header(deps, src, hidden)
                os.makedirs(sub)
                tpath = os.path.join(sub, "twin.hpp")
                with open(tpath, "w") as f:
                    f.write(text)
                res["n"] += 1
                res["twins"] = res.get("twins", 0) + 1
                tb = {"check": "sack order", "deps": deps, "src": src, "hidden": sorted(hidden), "header": text}
                status, nodes, errtext = CL.run_main([tpath, "--sack", "--python_out", sub])
                if status != "ok":
                    res["fails"].append(dict(tb, what="prophyc --sack failed on a valid header: %s %s" % (nodes, errtext[:300])))
                else:
                    got = [x for x in nodes["twin"] if type(x).__name__ != "Include"]
                    gnames = [x.name for x in got]
                    want = sorted(["%s__N%d" % (ns, n) for ns in ("a", "b") for n in deps] + ["Root"])
                    if sorted(gnames) != want:
                        res["fails"].append(dict(tb, what="output lists %r; the header defines %r and Root uses all of them "
                                                 "(each exactly once)" % (gnames, want), output=gnames))
                    else:
                        tpos = {nme: q for q, nme in enumerate(gnames)}
                        tbad = [(ns, n, d) for ns in ("a", "b") for n in deps for d in deps[n]
                                if tpos["%s__N%d" % (ns, d)] > tpos["%s__N%d" % (ns, n)]]
                        if tbad:
                            res["fails"].append(dict(tb, what="output order %r: %s__N%d comes before its dependency %s__N%d"
                                                     % (gnames, tbad[0][0], tbad[0][1], tbad[0][0], tbad[0][2]), output=gnames))
                        try:
                            P.import_generated(sub, "twin")
                        except P.CompileFailure as e:
                            res["fails"].append(dict(tb, what="generated Python module does not import: %s" % e, output=gnames))
                        for x in got:
                            if type(x).__name__ == "Enum":
                                continue
                            key = "Root" if x.name == "Root" else (x.name[0], int(x.name[4:]))
                            w = tlay[tidx[key] - 1]
                            if (x.byte_size, x.alignment) != (w["size"], w["align"]):
                                res["fails"].append(dict(tb, what="layout of %s is (%r, %r); layout rules give (%d, %d)"
                                                         % (x.name, x.byte_size, x.alignment, w["size"], w["align"])))
                shutil.rmtree(sub, ignore_errors=True)
    finally:
        shutil.rmtree(work, ignore_errors=True)
    return res


def sack_leg(rep, tier):
    import prophyc.parsers.sack as sack
    if not sack.SackParser.check():
        rep.cov["sack"] = "libclang not available: the sack leg did not run"
        return
    cases, stats = sack_cases(tier)
    for st in stats:
        rep.add_tlc(st)
    keys, envs, idxs, seen = [], [], [], set()
    for c in cases:
        deps = {i + 1: list(d) for i, d in enumerate(c["deps"])}
        key = json.dumps([sorted(deps.items()), sorted(c["hidden"])])
        if key in seen:
            continue
        seen.add(key)
        defs, idx = CL.sack_env_for_graph(deps, CL.sack_kinds(deps, set(c["hidden"])))
        keys.append(key)
        envs.append(defs)
        idxs.append(idx)
    for c in cases:
        deps = {i + 1: list(d) for i, d in enumerate(c["deps"])}
        key = json.dumps([sorted(deps.items()), sorted(c["hidden"]), "twin"])
        if key in seen or not any(deps.values()) or (tier == "quick" and (len(seen) + len(c["hidden"])) % 3):
            continue
        seen.add(key)
        defs, idx = CL.sack_twin_env(deps, set(c["hidden"]))
        keys.append(key)
        envs.append(defs)
        idxs.append(idx)
    lays, st = wire.layout_of(envs)
    rep.add_tlc(st)
    lay_by_key = {}
    for key, l, idx in zip(keys, lays, idxs):
        if not l["legal"]:
            raise MachineryError("sack graph rendering produced an environment the specification calls illegal")
        lay_by_key[key] = (l["lay"], idx)
    jobs = _chunks(cases, NCPU)
    with ProcessPoolExecutor(max_workers=NCPU) as ex:
        results = list(ex.map(sack_worker, jobs, [lay_by_key] * len(jobs), [{"scratch": scratch_dir("sack")}] * len(jobs)))
    same = other = n = 0
    for r in results:
        rep.cov["sack_twin_namespace_headers"] = rep.cov.get("sack_twin_namespace_headers", 0) + r.get("twins", 0)
        rep.count(r["n"])
        rep.validated(r["n"])
        n += r["n"]
        same += r["same_sequence"]
        other += r["other_sequence"]
        for s_ in r["samples"][:1]:
            rep.sample(s_)
        for f in r["fails"]:
            rep.violation(f, shadows.match("C15", f))
    rep.cov["sack"] = {"headers": n, "output_sequence_equals_DemandSort": same, "other_valid_sequence": other}


def c15(tier, replay):
    rep = Report("C15", tier)
    rep.assumptions = [
        "spec/TopoSort.tla: abstract requirement + the rotation algorithm, every DAG on <= 4 nodes x every input order "
        "(thorough: all of them with the liveness pass; quick: all of 3 nodes and a sample of 4); termination refuted on "
        "cyclic graphs (vacuity guard)",
        "each (graph, order) is rendered as isar XML twice: all definitions structs (the input order reaches the sort "
        "unchanged), mixed kinds (constants, enums, typedefs, structs, unions; isar regroups by kind) and types only "
        "with frequent unions (unions of unions, structs of unions, discriminators named by enumerators)",
        "sack front-end (spec/DemandSort.tla): every DAG x every linear extension (C++ wants a type defined before "
        "it is used by value) x every choice of definitions the front-end only builds on demand (unions, classes, "
        "namespace members, typedef-named anonymous structs), on 3 nodes (quick) and 4 nodes (thorough), rendered as "
        "C++ headers (some definitions in an included header) -> prophyc --sack; -S isar supplements not exercised"]
    cases, stats = topo_cases(tier)
    for st in stats:
        rep.add_tlc(st)
    # layouts from the specification for every distinct (graph, variant)
    keys, envs, idxs = [], [], []
    seen = set()
    for c in cases:
        deps = {i + 1: list(d) for i, d in enumerate(c["deps"])}
        for variant in (0, 1, 2):
            key = json.dumps([sorted(deps.items()), variant])
            if key in seen:
                continue
            seen.add(key)
            kinds = CL.assign_kinds(deps, variant)
            defs, idx, _ = CL.schema_env_for_graph(deps, kinds)
            keys.append(key)
            envs.append(defs)
            idxs.append(idx)
    lays, st = wire.layout_of(envs)
    rep.add_tlc(st)
    lay_by_key = {}
    for key, l, idx in zip(keys, lays, idxs):
        if not l["legal"]:
            raise MachineryError("graph rendering produced an environment the specification calls illegal")
        lay_by_key[key] = (l["lay"], idx)
    for f in include_name_cases():
        rep.violation(f, shadows.match("C15", f))
    sack_leg(rep, tier)
    jobs = _chunks(cases, NCPU)
    with ProcessPoolExecutor(max_workers=NCPU) as ex:
        results = list(ex.map(topo_worker, jobs, [lay_by_key] * len(jobs), [{"scratch": scratch_dir("topo")}] * len(jobs)))
    nt = 0
    for r in results:
        rep.count(r["n"])
        rep.validated(r["n"])
        nt += r["nontrivial"]
        for s in r["samples"]:
            rep.sample(s)
        for f in r["fails"]:
            rep.violation(f, shadows.match("C15", f))
    for k in range(nt):
        rep.nontrivial(k)
    rep.cov["rule"] = ("TLC enumerates every labelled DAG and every input permutation and proves the rotation sort "
                       "correct and terminating on them; each (DAG, permutation) is fed to prophyc --isar in two "
                       "renderings; non-trivial = graphs with at least one dependency edge")
    rep.cov["exhaustive"] = tier != "quick"
    return rep.finish()


# ---------------------------------------------------------------------------
# C14
# ---------------------------------------------------------------------------
def expr_cases(tier):
    cases = []
    depth = 2 if tier == "quick" else 3
    res = run_tlc("Expr", {"Depth": depth, "Lits": "{0, 1, 2, 5, 12}", "NameVals": "<- NV"},
                  invariants=["ValueSmall", "EDump"], spec="ESpec", prefix=("EXPR",),
                  on_line=lambda t, b: cases.append(json.loads(b)))
    # the same expressions under a second binding of K1, K2 (the names denote other values in another file of the
    # same compilation): where the expression is well-formed under both, its second value is kept with the case
    second = {}
    res2 = run_tlc("Expr", {"Depth": depth, "Lits": "{0, 1, 2, 5, 12}", "NameVals": "<- NV2"},
                   invariants=["ValueSmall", "EDump"], spec="ESpec", prefix=("EXPR",),
                   on_line=lambda t, b: (lambda c: second.__setitem__(c["min"], c))(json.loads(b)))
    for c in cases:
        o = second.get(c["min"])
        if c["min"] and o is not None:
            c["value2"], c["names2"] = o["value"], o["names"]
    return cases, [res.stats, res2.stats]


def _has_octal(text):
    import re
    return re.search(r"(?<![0-9A-Za-zx])0[0-7]+", text) is not None


def expand_isar_calls(txt):
    """shiftLeft(a, b) -> ((a) << (b)), bitMaskOr(a, b) -> ((a) | (b)), as other_schemas.rst documents for isar"""
    while True:
        fn, sym = "shiftLeft", "<<"
        p = txt.find("shiftLeft(")
        if p < 0:
            fn, sym = "bitMaskOr", "|"
            p = txt.find("bitMaskOr(")
        if p < 0:
            return txt
        depth, comma, q = 0, None, p + len(fn)
        for k in range(q, len(txt)):
            ch = txt[k]
            if ch == "(":
                depth += 1
            elif ch == ")":
                depth -= 1
                if depth == 0:
                    end = k
                    break
            elif ch == "," and depth == 1:
                comma = k
        a, b = txt[q + 1:comma].strip(), txt[comma + 1:end].strip()
        txt = txt[:p] + "((%s) %s (%s))" % (a, sym, b) + txt[end + 1:]


def _spellings(c):
    """(tag, text): minimal, fully parenthesised, and - when it differs - the minimal text without blanks"""
    if not c["min"]:
        return []           # no prophy-language text (bitMaskOr): isar only
    out = [("M", c["min"]), ("F", c["full"])]
    if c.get("tight") and c["tight"] != c["min"]:
        out.append(("T", c["tight"]))
    return out


def expr_worker(cases, wid, extra):
    """cases: list of {min, full, value, names}"""
    import prophyc.calc as calc
    res = {"fails": [], "n": 0, "samples": [], "nontrivial": 0, "n_cpp": 0, "n_cpp_ill_formed": {}}
    work = tempfile.mkdtemp(prefix="vfexpr-", dir=extra.get("scratch"))
    names = cases[0]["names"] if cases else []
    kvars = {"K%d" % (i + 1): v for i, v in enumerate(names)}
    pre = "".join("const K%d = %d;\n" % (i + 1, v) for i, v in enumerate(names))

    cpp_on = [bool(extra.get("cpp"))]

    def fail(c, ctx, what):
        res["fails"].append({"check": "expr", "what": what, "context": ctx, "min": c["min"], "full": c["full"],
                             "value": c["value"]})

    def decls(i, c, text, tag):
        v = c["value"]
        out = ["const %s%d = %s;" % (tag, i, text)]
        if 0 <= v < 2 ** 32:
            # a second enumerator refers to the first one of the same enum
            second = ", E%s%d_b = E%s%d_a + 1" % (tag, i, tag, i) if v + 1 < 2 ** 32 else ""
            out.append("enum E%s%d { E%s%d_a = %s%s };" % (tag, i, tag, i, text, second))
            out.append("union U%s%d { %s: u8 a; };" % (tag, i, text))
        if 1 <= v <= 64:
            out.append("struct S%s%d { u8 a[%s]; };" % (tag, i, text))
        return out

    def c_value(txt):
        """the text as a C++11 compiler reads it: C operator precedence (the
        same as Python's for these operators), `--` is a decrement, every
        operand is an int and every intermediate result must fit one, shift
        counts 0..31 on non-negative values, division truncates.  None when it
        is not an integer constant expression there."""
        import ast
        txt = expand_isar_calls(txt)
        if "--" in txt:
            return None

        def ev(n):
            if isinstance(n, ast.Constant) and isinstance(n.value, int):
                v = n.value
            elif isinstance(n, ast.Name):
                v = kvars[n.id]
            elif isinstance(n, ast.UnaryOp) and isinstance(n.op, ast.USub):
                v = -ev(n.operand)
            elif isinstance(n, ast.BinOp):
                a, b = ev(n.left), ev(n.right)
                if isinstance(n.op, ast.Add):
                    v = a + b
                elif isinstance(n.op, ast.Sub):
                    v = a - b
                elif isinstance(n.op, ast.Mult):
                    v = a * b
                elif isinstance(n.op, ast.FloorDiv):
                    if b == 0:
                        raise ValueError
                    v = abs(a) // abs(b) * (1 if (a < 0) == (b < 0) else -1)
                elif isinstance(n.op, ast.LShift):
                    if not 0 <= b < 32 or a < 0:
                        raise ValueError
                    v = a << b
                elif isinstance(n.op, ast.RShift):
                    if not 0 <= b < 32:
                        raise ValueError
                    v = a >> b
                elif isinstance(n.op, ast.BitOr):
                    v = a | b
                else:
                    raise ValueError
            else:
                raise ValueError
            if not -2 ** 31 <= v < 2 ** 31:
                raise ValueError
            return v
        try:
            # C octal/hex literals: Python reads 0x the same; octal texts never get here
            return ev(ast.parse(txt.replace("/", "//"), mode="eval").body)
        except (ValueError, SyntaxError, KeyError):
            return None

    def cpp_program(used, with_union):
        lines = ['#include <cstdio>', '#include "e.pp.hpp"', '#include "e.ppf.hpp"',
                 '#define P(tag, expr) std::printf("%s %lld\\n", tag, (long long)(expr));', 'int main()', '{']
        for i, tag, txt, c in used:
            n, v = "%s%d" % (tag, i), c["value"]
            lines.append('P("R.const.%s", %s) P("F.const.%s", prophy::generated::%s)' % (n, n, n, n))
            if 0 <= v < (2 ** 32 if with_union else 2 ** 31):
                lines.append('P("R.enumerator.%s", E%s_a) P("F.enumerator.%s", prophy::generated::E%s_a)' % (n, n, n, n))
                if with_union:
                    lines.append('P("R.discriminator.%s", U%s::discriminator_a) '
                                 'P("F.discriminator.%s", prophy::generated::U%s::discriminator_a)' % (n, n, n, n))
            if 1 <= v <= 64 and not c.get("_nostruct"):
                lines.append('P("R.extent.%s", sizeof(((S%s*)0)->a)) P("F.extent.%s", sizeof(((prophy::generated::S%s*)0)->a)) '
                             'P("F.bytesize.%s", prophy::generated::S%s::encoded_byte_size)' % (n, n, n, n, n, n))
        lines += ['return 0;', '}']
        return "\n".join(lines) + "\n"

    def build_and_run(sub, used, with_union):
        from . import cppleg as C
        with open(os.path.join(sub, "prog.cpp"), "w") as f:
            f.write(cpp_program(used, with_union))
        rc, out = C.run_cmd(["g++", "-std=c++11", "-O0", "-w", "-I", C.INCLUDE, "-I", sub, os.path.join(sub, "prog.cpp"),
                             "-o", os.path.join(sub, "prog")], sub, timeout=600)
        if rc != 0:
            return None, out
        rc, out = C.run_cmd([os.path.join(sub, "prog")], sub, timeout=60)
        if rc != 0:
            return None, out
        vals = {}
        for line in out.splitlines():
            k, _, v = line.partition(" ")
            vals[k] = int(v)
        return vals, ""

    def check_cpp(sub, used, fe, with_union):
        """values the C++ back-ends give to constants, enumerators,
        discriminators and array extents (raw and full codec headers)"""
        res["n_cpp"] += len(used)
        vals, err = build_and_run(sub, used, with_union)
        if vals is None:
            fail(used[0][3], "%s -> c++" % fe, "generated C++ headers do not compile or run: %s" % "; ".join([ln for ln in err.splitlines() if "error" in ln][:3] or [err[-300:]])[:900])
            return
        for i, tag, txt, c in used:
            n = "%s%d" % (tag, i)
            for key in ("R.const.", "F.const.", "R.enumerator.", "F.enumerator.", "R.discriminator.", "F.discriminator.",
                        "R.extent.", "F.extent.", "F.bytesize."):
                got = vals.get(key + n)
                if got is not None and got != c["value"]:
                    kind = key.split(".")[1]
                    res["fails"].append({"check": "expr", "what": "C++ %s codec: %s is %d, the expression denotes %d"
                                         % ("raw" if key[0] == "R" else "full", kind, got, c["value"]),
                                         "context": "%s -> c++ %s (%s)" % (fe, kind, txt), "min": c["min"], "full": c["full"],
                                         "value": c["value"], "text": txt, "c_value": c_value(txt), "observed": got})

    def top_level_rshift(txt):
        depth = 0
        for k, ch in enumerate(txt):
            depth += (ch == "(") - (ch == ")")
            if depth == 0 and txt[k:k + 2] == ">>":
                return True
        return False

    def probe_ill_formed(u, kind):
        """raw isar text that a C++ compiler cannot read as the generators
        emit it: compile it alone and record what happens"""
        i, tag, txt, c = u
        sub2 = tempfile.mkdtemp(prefix="x", dir=work)
        p2 = os.path.join(sub2, "e.xml")
        body = '<constant name="%s%d" value="%s"/>' % (tag, i, CL.xml_escape(txt)) if kind == "const" else \
            '<struct name="S%s%d"><member name="a" type="u8"><dimension size="%s"/></member></struct>' % (tag, i, CL.xml_escape(txt))
        with open(p2, "w") as f:
            f.write('<x>\n%s\n%s\n</x>\n' % ("\n".join('<constant name="K%d" value="%d"/>' % (q + 1, v)
                                                          for q, v in enumerate(names)), body))
        st2, _, _ = CL.run_main([p2, "--isar", "--cpp_out", sub2, "--cpp_full_out", sub2])
        if st2 == "ok":
            from . import cppleg as C
            with open(os.path.join(sub2, "prog.cpp"), "w") as f:
                f.write('#include "e.pp.hpp"\n#include "e.ppf.hpp"\nint main() { return 0; }\n')
            rc, out = C.run_cmd(["g++", "-std=c++11", "-O0", "-w", "-fsyntax-only", "-I", C.INCLUDE, "-I", sub2,
                                 os.path.join(sub2, "prog.cpp")], sub2, timeout=300)
            if rc != 0:
                line = next((ln for ln in out.splitlines() if "error" in ln), out.strip()[:200])
                res["fails"].append({"check": "expr", "what": "the generated C++ headers are ill-formed for this "
                                     "expression used as %s: %s" % (kind, line[:300]),
                                     "context": "isar -> c++ %s (%s)" % (kind, txt), "min": c["min"], "full": c["full"],
                                     "value": c["value"], "text": txt, "c_value": None, "observed": None})
        shutil.rmtree(sub2, ignore_errors=True)

    def check_prophy(chunk, base_i):
        text = pre
        for off, c in enumerate(chunk):
            i = base_i + off
            text += "\n".join(sum((decls(i, c, txt, tag) for tag, txt in _spellings(c)), [])) + "\n"
        sub = tempfile.mkdtemp(prefix="p", dir=work)
        path = os.path.join(sub, "e.prophy")
        with open(path, "w") as f:
            f.write(text)
        status, nodes, _ = CL.run_main([path, "--python_out", sub] + (["--cpp_out", sub, "--cpp_full_out", sub] if cpp_on[0] else []))
        if status != "ok":
            return status, nodes
        try:
            mod = P.import_generated(sub, "e")
        except P.CompileFailure as e:
            return "import", str(e)
        by = {n.name: n for n in nodes["e"]}
        if cpp_on[0]:
            used = [(base_i + off, tag, txt, c) for off, c in enumerate(chunk) for tag, txt in _spellings(c)]
            check_cpp(sub, used, "prophy", True)
        for off, c in enumerate(chunk):
            i, v = base_i + off, c["value"]
            for tag, txt in _spellings(c):
                node = by["%s%d" % (tag, i)]
                if str(node.value) != str(v):
                    fail(c, "prophy const (%s)" % txt, "model constant value is %r, the expression denotes %d" % (node.value, v))
                got = getattr(mod, "%s%d" % (tag, i))
                if got != v or isinstance(got, float):
                    fail(c, "python const (%s)" % txt, "generated Python constant is %r, the expression denotes %d" % (got, v))
                if 0 <= v < 2 ** 32:
                    ev = getattr(mod, "E%s%d_a" % (tag, i))
                    if ev != v:
                        fail(c, "enumerator (%s)" % txt, "generated enumerator value is %r, expected %d" % (ev, v))
                    if v + 1 < 2 ** 32 and getattr(mod, "E%s%d_b" % (tag, i)) != v + 1:
                        fail(c, "enumerator (%s)" % txt, "enumerator defined as <previous enumerator> + 1 is %r, expected %d"
                             % (getattr(mod, "E%s%d_b" % (tag, i)), v + 1))
                    u = getattr(mod, "U%s%d" % (tag, i))
                    if u._descriptor[0].discriminator != v:
                        fail(c, "discriminator (%s)" % txt, "union discriminator is %r, expected %d"
                             % (u._descriptor[0].discriminator, v))
                if 1 <= v <= 64:
                    snode = by["S%s%d" % (tag, i)]
                    if snode.byte_size != v:
                        fail(c, "array size (%s)" % txt, "model size of 'u8 a[%s]' is %r, expected %d" % (txt, snode.byte_size, v))
                    if getattr(mod, "S%s%d" % (tag, i))._SIZE != v:
                        fail(c, "array size (%s)" % txt, "python _SIZE of 'u8 a[%s]' is %r, expected %d"
                             % (txt, getattr(mod, "S%s%d" % (tag, i))._SIZE, v))
        shutil.rmtree(sub, ignore_errors=True)
        return "ok", None

    def isar_xml(items, for_cpp):
        elems = ['<constant name="K%d" value="%d"/>' % (i + 1, v) for i, v in enumerate(names)]
        for i, tag, txt, c in items:
            elems.append('<constant name="%s%d" value="%s"/>' % (tag, i, CL.xml_escape(txt)))
            if 1 <= c["value"] <= 64 and not c.get("_nostruct"):
                elems.append('<struct name="S%s%d"><member name="a" type="u8"><dimension size="%s"/></member></struct>'
                             % (tag, i, CL.xml_escape(txt)))
            if 0 <= c["value"] < 2 ** 31:
                elems.append('<enum name="E%s%d"><enum-member name="E%s%d_a" value="%s"/></enum>'
                             % (tag, i, tag, i, CL.xml_escape(txt)))
            if tag == "I" and 1 <= c["value"] <= 64 and not for_cpp:
                # the operator-call constant and enumerator, used by NAME as array extents: evaluated at model time
                elems.append('<struct name="SN%s%d"><member name="a" type="u8"><dimension size="%s%d"/></member>'
                             '<member name="b" type="u16"><dimension size="E%s%d_a"/></member></struct>' % (tag, i, tag, i, tag, i))
        return "<x>\n%s\n</x>\n" % "\n".join(elems)

    def check_isar(chunk, base_i):
        used = []
        for off, c in enumerate(chunk):
            i = base_i + off
            for tag, txt in _spellings(c) + [("I", c.get("isar", ""))]:
                if txt and not _has_octal(txt):
                    # operator calls (tag I) are expanded in constants and enumerators only: no array extent
                    used.append((i, tag, txt, dict(c, _nostruct=True) if tag == "I" else c))
        sub = tempfile.mkdtemp(prefix="i", dir=work)
        if cpp_on[0]:
            # the C++ back-ends get the texts a C++ compiler can read at all;
            # the others are probed one by one (bounded)
            used_cpp, ill_formed, ill_struct = [], [], []
            for i, tag, txt, c in used:
                cv = c_value(txt)
                if cv is None:
                    ill_formed.append((i, tag, txt, c))
                    continue
                if 1 <= c["value"] <= 64 and (cv < 1 or top_level_rshift(txt)):
                    # as an array extent the raw text is ill-formed C++ (non-positive
                    # under C precedence, or `>>` closing array<T, N>)
                    ill_struct.append((i, tag, txt, c))
                    c = dict(c, _nostruct=True)
                used_cpp.append((i, tag, txt, c))
            subc = os.path.join(sub, "cpp")
            os.makedirs(subc)
            with open(os.path.join(subc, "e.xml"), "w") as f:
                f.write(isar_xml(used_cpp, True))
            st, info, _ = CL.run_main([os.path.join(subc, "e.xml"), "--isar", "--cpp_out", subc, "--cpp_full_out", subc])
            if st != "ok":
                fail(used_cpp[0][3], "isar -> c++", "prophyc --isar with the C++ back-ends failed (%s): %s" % (st, str(info)[:300]))
            else:
                check_cpp(subc, used_cpp, "isar", False)
            for kind, lst in (("const", ill_formed), ("extent", ill_struct)):
                for u in lst[:max(0, 2 - res["n_cpp_ill_formed"].get(kind, 0))]:
                    res["n_cpp_ill_formed"][kind] = res["n_cpp_ill_formed"].get(kind, 0) + 1
                    probe_ill_formed(u, kind)
        path = os.path.join(sub, "e.xml")
        with open(path, "w") as f:
            f.write(isar_xml(used, False))
        status, nodes, _ = CL.run_main([path, "--isar", "--python_out", sub])
        if status != "ok":
            return status, nodes
        try:
            mod = P.import_generated(sub, "e")
        except P.CompileFailure as e:
            return "import", str(e)
        by = {n.name: n for n in nodes["e"]}
        for i, tag, txt, c in used:
            v = c["value"]
            got = getattr(mod, "%s%d" % (tag, i))
            if got != v or isinstance(got, float):
                fail(c, "isar -> python const (%s)" % txt, "the Python module evaluates the constant to %r, the expression "
                     "denotes %d" % (got, v))
            if 1 <= v <= 64 and not c.get("_nostruct") and by["S%s%d" % (tag, i)].byte_size != v:
                fail(c, "isar array size (%s)" % txt, "model size is %r, expected %d" % (by["S%s%d" % (tag, i)].byte_size, v))
            if tag == "I" and 1 <= v <= 64:
                sn = by["SN%s%d" % (tag, i)]
                want_size = v + v % 2 + 2 * v
                py_size = getattr(mod, "SN%s%d" % (tag, i))._SIZE
                if sn.byte_size != want_size or py_size != want_size:
                    fail(c, "isar array sizes named by constant and enumerator (%s)" % txt,
                         "'u8 a[%s%d]; u16 b[E%s%d_a]' has model size %r and Python _SIZE %r, expected %d"
                         % (tag, i, tag, i, sn.byte_size, py_size, want_size))
        # the same texts in a second file of the same compilation, where K1, K2 denote other values
        reb = [(i, tag, txt, c) for i, tag, txt, c in used if tag != "I" and "value2" in c and 1 <= c["value2"] <= 64
               and 1 <= c["value"] <= 64 and not c.get("_nostruct")]
        if reb:
            def sized(prefix, kvals):
                el = ['<constant name="K%d" value="%d"/>' % (q + 1, v) for q, v in enumerate(kvals)]
                el += ['<struct name="%s%s%d"><member name="a" type="u8"><dimension size="%s"/></member></struct>'
                       % (prefix, tag, i, CL.xml_escape(txt)) for i, tag, txt, c in reb]
                return "<x>\n%s\n</x>\n" % "\n".join(el)
            p1, p2 = os.path.join(sub, "first.xml"), os.path.join(sub, "second.xml")
            with open(p1, "w") as f:
                f.write(sized("RA", names))
            with open(p2, "w") as f:
                f.write(sized("RB", reb[0][3]["names2"]))
            st2, nodes2, _ = CL.run_main([p1, p2, "--isar", "--python_out", sub])
            if st2 != "ok":
                fail(reb[0][3], "isar, two files", "prophyc --isar failed on two files that bind K1, K2 differently (%s): %s"
                     % (st2, str(nodes2)[:300]))
            else:
                for fname, prefix, key in (("first", "RA", "value"), ("second", "RB", "value2")):
                    byn = {n.name: n for n in nodes2[fname]}
                    for i, tag, txt, c in reb:
                        got = byn["%s%s%d" % (prefix, tag, i)].byte_size
                        if got != c[key]:
                            fail(c, "isar array size (%s) in the %s of two files" % (txt, fname),
                                 "model size is %r; with K = %r the expression denotes %d"
                                 % (got, names if key == "value" else c["names2"], c[key]))
        shutil.rmtree(sub, ignore_errors=True)
        return "ok", None

    try:
        size = 150
        for start in range(0, len(cases), size):
            chunk = cases[start:start + size]
            for c in chunk:
                res["n"] += 1
                if c["min"] != c["full"].strip("()"):
                    res["nontrivial"] += 1
                # the model-time evaluator, directly
                for _, txt in _spellings(c):
                    if _has_octal(txt):
                        continue
                    try:
                        got = calc.eval(txt, dict(kvars))
                    except BaseException as e:  # noqa
                        got = "%s: %s" % (type(e).__name__, e)
                    if got != c["value"] or isinstance(got, float):
                        fail(c, "calc.eval(%s)" % txt, "model-time evaluator gives %r, the expression denotes %d" % (got, c["value"]))
            for fn, label in ((check_prophy, "prophy"), (check_isar, "isar")):
                # C++ translation units are the expensive part: every batch in
                # the thorough tier, every cpp_every-th batch otherwise
                cpp_on[0] = bool(extra.get("cpp")) and (start // size + wid) % extra.get("cpp_every", 1) == 0
                status, info = fn(chunk, start)
                if status != "ok":
                    # isolate: one expression per compilation (bounded)
                    bad = 0
                    cpp_on[0] = False      # isolation re-runs: the C++ part was done with the batch
                    for off, c in enumerate(chunk):
                        st, inf = fn([c], start + off)
                        if st != "ok":
                            bad += 1
                            fail(c, label, "prophyc failed on a well-formed expression (%s): %s" % (st, str(inf)[:300]))
                            if bad >= 8:
                                break
            if len(res["samples"]) < 1 and chunk:
                res["samples"].append(chunk[len(chunk) // 2])
    finally:
        shutil.rmtree(work, ignore_errors=True)
    return res


def c14(tier, replay):
    rep = Report("C14", tier)
    rep.assumptions = [
        "spec/Expr.tla: ASTs with <= 1 operator over all leaves plus the precedence/associativity shapes with 2-3 "
        "operators; literals in decimal, hex and octal; two earlier constants; '/' only with non-negative dividend and "
        "positive divisor; values kept below 10^8 (TLC integers)",
        "each expression is compiled as constant, enumerator, array extent and discriminator, as minimally and as fully "
        "parenthesised text, in prophy syntax and (decimal/hex only) as raw isar text",
        "C++ back-ends: one translation unit per batch includes the generated raw and full headers and prints every "
        "constant, enumerator, discriminator and array extent (g++ -std=c++11); quick tier: every 5th batch of 150 "
        "expressions, thorough: all"]
    cases, stats = expr_cases(tier)
    for st in stats:
        rep.add_tlc(st)
    jobs = _chunks(cases, NCPU)
    with ProcessPoolExecutor(max_workers=NCPU) as ex:
        results = list(ex.map(expr_worker, jobs, range(len(jobs)),
                               [{"scratch": scratch_dir("expr"), "cpp": True, "cpp_every": 5 if tier == "quick" else 1}] * len(jobs)))
    nt = 0
    for r in results:
        rep.cov["cpp_values_checked"] = rep.cov.get("cpp_values_checked", 0) + r["n_cpp"]
        rep.count(r["n"])
        rep.validated(r["n"])
        nt += r["nontrivial"]
        for s in r["samples"]:
            rep.sample(s)
        for f in r["fails"]:
            rep.violation(f, shadows.match("C14", f))
    for k in range(nt):
        rep.nontrivial(k)
    rep.cov["rule"] = ("TLC enumerates the expression set of spec/Expr.tla and evaluates each; non-trivial = the "
                       "minimally parenthesised text differs from the fully parenthesised one")
    rep.cov["exhaustive"] = True
    return rep.finish()


# ---------------------------------------------------------------------------
# C16 / C20: multi-file schemas (spec/FileProc.tla)
# ---------------------------------------------------------------------------
FP_INVARIANTS = ["ReadOnce", "DirsDiscipline", "DirsRestored", "ResolutionDeclarative", "MissingReported", "FDump"]


def fileproc_cases():
    cases = []
    res = run_tlc("FileProc", {}, invariants=FP_INVARIANTS, properties=["Terminates"], spec="FSpec", prefix=("FCFG",),
                  on_line=lambda t, b: cases.append(json.loads(b)))
    return cases, [res.stats]


DECL = {
    "A": "const CA = 3;\nenum EA { EA_x = 1, EA_y = 5 };\ntypedef u8 TA;\nstruct SA { u8 x[CA]; EA e; };\n",
}


OWN = {"A": ("SA",), "A2": ("SA",), "B": ("SB",), "M": ("SM",)}


def file_texts(cfg, with_includes=True):
    """The source files of a configuration.  A file uses the types of a file
    it includes directly (and only then).  A2 is a different file that is also
    called A.prophy: same type names, other numbers."""
    incs = cfg["incs"]
    # some configurations make A a file WITHOUT definitions (a licence header, say): it is still included
    # wherever the configuration says, but nobody uses a name from it
    empty_a = bool(cfg.get("emptyA"))
    real_incs = incs
    if empty_a:
        incs = {f: [x for x in ls if x != "A"] for f, ls in incs.items()}

    def spelled(f, leaf):
        # some configurations spell B's include of A relative to B's own directory ("../d1/A.prophy"): that names
        # the very file the search order resolves "A.prophy" to, so the model's resolution is unchanged
        if cfg.get("relpath") and f == "B" and leaf == "A" and cfg["res"]["B"] == ["A"] and cfg["dirOf"].get("A") not in (None, "none"):
            return "../%s/A" % cfg["dirOf"]["A"]
        return leaf

    def inc_lines(f):
        # (some include lines carry a comment that contains quotes)
        return "".join('#include "%s.prophy"%s\n' % (spelled(f, leaf), ' /* see "%s" */' % leaf if cfg.get("emptyA") or leaf == "B" else "")
                       for leaf in real_incs[f]) if with_includes else ""
    a = inc_lines("A") + ("// no definitions in this file\n/* only comments */\n" if empty_a else DECL["A"])
    a2 = "const CA = 5;\nenum EA { EA_x = 1, EA_y = 5 };\ntypedef u16 TA;\nstruct SA { u8 x[CA]; EA e; u16 extra; };\n"
    # B's typedef goes on to A's when B includes A: a chain that crosses a nested include when M uses it as a sizer
    b = inc_lines("B") + "typedef %s TB;\nstruct SB { %su16 y; u64 z; };\n" % (
        "TA" if "A" in incs["B"] else "u32", "SA a; " if "A" in incs["B"] else "")
    m = inc_lines("M") + "struct SM { %s%su8 t; i16 w<>; };\n" % (
        "SA a; " if "A" in incs["M"] else "", "SB b; TB n; u16 ext<@n>; " if "B" in incs["M"] else "")
    return {"A": a, "A2": a2, "B": b, "M": m}


def closure(cfg, f, seen=None):
    """files (in dependency order) that the declarative resolution makes visible from f"""
    seen = seen if seen is not None else []
    for r in cfg["res"][f]:
        if r != "?" and r not in seen and r != f:
            closure(cfg, r, seen)
    if f not in seen:
        seen.append(f)
    return seen


def single_file_text(cfg, f="M"):
    t = file_texts(cfg, with_includes=False)
    files = closure(cfg, f)
    if "A" in files and "A2" in files:
        return None          # two different files define the same names: no single-file equivalent
    return "".join(t[x] for x in files)


def materialise(cfg, root):
    """-> {file: absolute path}"""
    texts = file_texts(cfg)
    paths = {}
    for d in ("d0", "d1", "d2", "out", "single", "elsewhere"):
        os.makedirs(os.path.join(root, d), exist_ok=True)
    for f in ("M", "A", "B", "A2"):
        d = "d0" if f == "M" else cfg["dirOf"][f]
        if d == "none":
            continue
        paths[f] = os.path.join(root, d, ("A" if f == "A2" else f) + ".prophy")
        with open(paths[f], "w") as fh:
            fh.write(texts[f])
    return paths


_opens = {}


def _audit(event, args):
    if event == "open" and args and isinstance(args[0], str) and args[0].endswith(".prophy"):
        _opens[os.path.abspath(args[0])] = _opens.get(os.path.abspath(args[0]), 0) + 1


_audit_installed = [False]


def load_package(outdir, pkg, stems):
    """Import generated modules that use relative imports ('from .A import')."""
    import importlib
    import sys
    with open(os.path.join(outdir, "__init__.py"), "w"):
        pass
    parent = os.path.dirname(outdir)
    sys.path.insert(0, parent)
    try:
        importlib.invalidate_caches()
        return {s: importlib.import_module("%s.%s" % (os.path.basename(outdir), s)) for s in stems}
    finally:
        sys.path.remove(parent)


def include_worker(cases, wid, extra):
    import sys
    res = {"fails": [], "n": 0, "samples": [], "nontrivial": 0, "n_ok": 0, "n_diag": 0}
    if not _audit_installed[0]:
        sys.addaudithook(_audit)
        _audit_installed[0] = True
    base = tempfile.mkdtemp(prefix="vfinc-", dir=extra.get("scratch"))
    try:
        for ci, cfg in enumerate(cases):
            root = os.path.join(base, "w%d_c%d" % (wid, ci))
            os.makedirs(root)
            cfg = dict(cfg, emptyA=(ci % 5 == 4 and cfg["reads"].get("A2", 0) == 0), relpath=(ci % 3 == 1))
            paths = materialise(cfg, root)
            out = os.path.join(root, "out%d_%d" % (wid, ci))
            os.makedirs(out)
            idirs = []
            for d in cfg["idirs"]:
                idirs += ["-I", os.path.join(root, d)]
            # cwd arrangement: absolute paths from elsewhere, or relative from the main's directory
            rel = (ci % 2 == 0)
            old = os.getcwd()
            if rel:
                os.chdir(os.path.join(root, "d0"))
                argv_files = [os.path.relpath(paths[f]) for f in cfg["mains"]]
            else:
                os.chdir(os.path.join(root, "elsewhere"))
                argv_files = [paths[f] for f in cfg["mains"]]
            _opens.clear()
            try:
                status, nodes, _ = CL.run_main(argv_files + idirs + ["--python_out", out])
            finally:
                os.chdir(old)
            opens = dict(_opens)
            res["n"] += 1
            expect_ok = not cfg["errors"]
            basef = {"check": "include", "config": {k: cfg[k] for k in ("dirOf", "idirs", "incs", "mains")},
                     "expected_errors": cfg["errors"], "relative_paths": rel}
            if len(cfg["incs"]["M"]) > 1 or cfg["incs"]["B"]:
                res["nontrivial"] += 1
            if not expect_ok:
                res["n_diag"] += 1
                if status == "ok":
                    res["fails"].append(dict(basef, what="prophyc succeeded although the specification reports %r"
                                             % (cfg["errors"],)))
                elif status == "internal":
                    res["fails"].append(dict(basef, what="missing/cyclic include ended in an internal exception: %s" % nodes))
                else:
                    text = str(nodes)
                    kinds = set(e[0] for e in cfg["errors"])
                    if "cyclic" in kinds and "included again" not in text and "not found" not in text:
                        res["fails"].append(dict(basef, what="diagnostic does not mention the cyclic include: %s" % text[:300]))
                    if kinds == {"missing"} and "not found" not in text:
                        res["fails"].append(dict(basef, what="diagnostic does not mention the missing file: %s" % text[:300]))
                shutil.rmtree(root, ignore_errors=True)
                continue
            res["n_ok"] += 1
            if status != "ok":
                res["fails"].append(dict(basef, what="prophyc failed on a well-formed multi-file schema: %s" % (nodes,)))
                shutil.rmtree(root, ignore_errors=True)
                continue
            for f in ("M", "A", "B", "A2"):
                got = opens.get(os.path.abspath(paths[f]), 0) if f in paths else 0
                if got != cfg["reads"][f]:
                    res["fails"].append(dict(basef, what="file %s was opened %d time(s); the specification reads it %d time(s)"
                                             % (f, got, cfg["reads"][f])))
            # the C++ back-ends' include lines: every generated source must compile next to its siblings
            reach = set(x for f in cfg["mains"] for x in closure(cfg, f))
            if ci % extra.get("cpp_every", 4) == 0 and reach <= set(cfg["mains"]) and not {"A", "A2"} <= reach:
                # (an included file's header exists only if that file is compiled too; the
                # generated include lines name files by base name, so A and A2 cannot coexist)
                from . import cppleg as C
                outc = os.path.join(root, "outc")
                os.makedirs(outc)
                os.chdir(os.path.join(root, "d0"))
                try:
                    stc, infoc, _ = CL.run_main([os.path.relpath(paths[f]) for f in cfg["mains"]] + idirs +
                                                ["--cpp_out", outc, "--cpp_full_out", outc])
                finally:
                    os.chdir(old)
                res["n_cpp"] = res.get("n_cpp", 0) + 1
                if stc != "ok":
                    res["fails"].append(dict(basef, what="prophyc with the C++ back-ends failed on a well-formed multi-file "
                                                         "schema: %s" % (infoc,)))
                else:
                    for f in cfg["mains"]:
                        stem = os.path.splitext(os.path.basename(paths[f]))[0]
                        for srcf, comp in ((stem + ".ppf.cpp", "clang++-14"), (stem + ".pp.cpp", "g++")):
                            rc, outp = C.run_cmd([comp, "-std=c++11", "-fsyntax-only", "-I", C.INCLUDE, "-I", outc, srcf], outc)
                            if rc != 0:
                                line = next((ln for ln in outp.splitlines() if "error" in ln), outp[-300:])
                                res["fails"].append(dict(basef, what="generated %s of a multi-file schema does not compile: %s"
                                                         % (srcf, line[:300])))
            # every main file against the single-file concatenation of what it can see
            for f in cfg["mains"]:
                text1 = single_file_text(cfg, f)
                if text1 is None:
                    res["n_no_single_file"] = res.get("n_no_single_file", 0) + 1
                    continue
                sdir = os.path.join(root, "single_" + f)
                os.makedirs(sdir)
                with open(os.path.join(sdir, "ALL.prophy"), "w") as fh:
                    fh.write(text1)
                st2, nodes2, _ = CL.run_main([os.path.join(sdir, "ALL.prophy"), "--python_out", sdir])
                if st2 != "ok":
                    raise RuntimeError("single-file rendering does not compile: %s\n%s" % (nodes2, text1))
                sn = {n.name: n for n in nodes2["ALL"]}
                for n in nodes[f]:
                    if hasattr(n, "byte_size") and n.name in sn:
                        if (n.byte_size, n.alignment, n.kind) != (sn[n.name].byte_size, sn[n.name].alignment, sn[n.name].kind):
                            res["fails"].append(dict(basef, what="layout of %s in %s.prophy differs: multi-file (%r,%r,%r), "
                                                     "single file (%r,%r,%r)" % (n.name, f, n.byte_size, n.alignment, n.kind,
                                                                                 sn[n.name].byte_size, sn[n.name].alignment, sn[n.name].kind)))
            # importable package + encodings, when no two files share a name in this run
            if set(cfg["mains"]) == {"M", "A", "B"} and cfg["reads"]["A2"] == 0:
                sdir = os.path.join(root, "single_M")
                try:
                    mods = load_package(out, "p", ["A", "B", "M"])
                    single = P.import_generated(sdir, "ALL")
                except Exception as e:  # noqa
                    res["fails"].append(dict(basef, what="generated per-file modules do not import: %s" % P.exc_text(e)))
                    shutil.rmtree(root, ignore_errors=True)
                    continue
                if "A" in closure(cfg, "M") and not cfg.get("emptyA") and mods["A"].CA != single.CA:
                    res["fails"].append(dict(basef, what="constant CA differs"))
                x, y = mods["M"].SM(), single.SM()
                for msg in (x, y):
                    msg.t = 7
                    msg.w[:] = [1, -2]
                    if "A" in cfg["incs"]["M"] and not cfg.get("emptyA"):
                        msg.a.x[:] = [1, 2, 3]
                        msg.a.e = "EA_y"
                    if "B" in cfg["incs"]["M"]:
                        msg.b.y = 513
                        msg.b.z = 2 ** 40
                        msg.ext[:] = [5, 600]
                if x.encode("<") != y.encode("<") or x.encode(">") != y.encode(">"):
                    res["fails"].append(dict(basef, what="encodings differ: multi-file %s, single file %s"
                                             % (x.encode("<").hex(), y.encode("<").hex())))
            if len(res["samples"]) < 1:
                res["samples"].append({"config": basef["config"], "reads": cfg["reads"], "opened": {os.path.basename(k): v for k, v in opens.items()}})
            shutil.rmtree(root, ignore_errors=True)
    finally:
        shutil.rmtree(base, ignore_errors=True)
    return res


def c16(tier, replay):
    rep = Report("C16", tier)
    rep.assumptions = [
        "spec/FileProc.tla: three files (main M, includable A and B), their directories, the -I list, include lists incl. "
        "duplicates, a missing file, cyclic and self includes, and the command-line order, and a second file of the same name in another directory - 24192 configurations, all "
        "model-checked (ReadOnce, DirsDiscipline, DirsRestored, ResolutionDeclarative, MissingReported, Terminates)",
        "file opens are counted with sys.addaudithook; relative paths from the main's directory alternate with absolute "
        "paths from another working directory",
        "the declarations inside the files are fixed (constant, enum, three structs); a file uses another file's types "
        "iff it includes it directly"]
    cases, stats = fileproc_cases()
    for st in stats:
        rep.add_tlc(st)
    rnd = random.Random(seed())
    ok_cases = [c for c in cases if not c["errors"]]
    bad_cases = [c for c in cases if c["errors"]]
    n = 500 if tier == "quick" else 6000
    pick = rnd.sample(ok_cases, min(len(ok_cases), n)) + rnd.sample(bad_cases, min(len(bad_cases), n))
    jobs = _chunks(pick, NCPU)
    with ProcessPoolExecutor(max_workers=NCPU) as ex:
        results = list(ex.map(include_worker, jobs, range(len(jobs)), [{"scratch": scratch_dir("inc")}] * len(jobs)))
    nt = 0
    for r in results:
        rep.count(r["n"])
        rep.validated(r["n"])
        nt += r["nontrivial"]
        rep.cov["configs_ok"] = rep.cov.get("configs_ok", 0) + r["n_ok"]
        rep.cov["configs_cpp_compiled"] = rep.cov.get("configs_cpp_compiled", 0) + r.get("n_cpp", 0)
        rep.cov["configs_with_diagnostic"] = rep.cov.get("configs_with_diagnostic", 0) + r["n_diag"]
        for s in r["samples"]:
            rep.sample(s)
        for f in r["fails"]:
            rep.violation(f, shadows.match("C16", f))
    for k in range(nt):
        rep.nontrivial(k)
    rep.cov["configurations_model_checked"] = len(cases)
    rep.cov["rule"] = ("TLC enumerates and model-checks every configuration of spec/FileProc.tla and dumps the expected "
                       "diagnostics, read counts and include resolution; a seeded sample is materialised on disk and "
                       "compiled; non-trivial = more than one include or a nested include")
    rep.cov["exhaustive"] = False
    return rep.finish()


def _snapshot(outdir):
    out = {}
    for name in sorted(os.listdir(outdir)):
        p = os.path.join(outdir, name)
        if os.path.isfile(p):
            with open(p, "rb") as f:
                out[name] = f.read()
    return out


def determinism_worker(cases, wid, extra):
    import itertools
    res = {"fails": [], "n": 0, "samples": [], "nontrivial": 0, "runs": 0}
    base = tempfile.mkdtemp(prefix="vfdet-", dir=extra.get("scratch"))
    try:
        for ci, cfg in enumerate(cases):
            root = os.path.join(base, "c%d" % ci)
            os.makedirs(root)
            paths = materialise(cfg, root)
            idirs = []
            for d in cfg["idirs"]:
                idirs += ["-I", os.path.join(root, d)]
            mains = list(cfg["mains"])

            def run(order, hashseed, cwd, tag, alone=False, stale=None, same_length=False):
                out = os.path.join(root, "o_" + tag)
                os.makedirs(out)
                for name, data in (stale or {}).items():
                    with open(os.path.join(out, name), "wb") as fh:
                        if same_length:
                            # ... or files of exactly the new length and other content (a length-preserving edit)
                            fh.write(bytes(data).swapcase())
                        else:
                            # an output directory that still holds longer files of an earlier run
                            fh.write(data + b"\n// left over from an earlier, longer revision\n" * 20)
                files = [paths[f] if cwd != "d0" else os.path.relpath(paths[f], os.path.join(root, "d0")) for f in order]
                argv = files + idirs + ["--python_out", out, "--cpp_out", out, "--cpp_full_out", out, "--prophy_out", out]
                rc, text = CL.run_cli(argv, cwd=os.path.join(root, cwd), env={"PYTHONHASHSEED": hashseed})
                res["runs"] += 1
                return rc, text, _snapshot(out)

            rc, text, ref = run(mains, "0", "d0", "ref")
            res["n"] += 1
            basef = {"check": "determinism", "config": {k: cfg[k] for k in ("dirOf", "idirs", "incs", "mains")}}
            if rc != 0:
                res["fails"].append(dict(basef, what="baseline run failed (rc=%s): %s" % (rc, text[-300:])))
                continue
            variants = [(mains, "0", "d0", "repeat"), (mains, "0", "d0", "repeat_same_length"), (mains, "1", "d0", "seed1"), (mains, "2", "elsewhere", "seed2_cwd"),
                        (mains, "random", "d0", "seedrandom")]
            if len(mains) > 1:
                res["nontrivial"] += 1
                perms = [list(p) for p in itertools.permutations(mains) if list(p) != mains]
                for k, p in enumerate(perms[:3]):
                    variants.append((p, str(k + 3), "elsewhere" if k % 2 else "d0", "order%d" % k))
            for order, hs, cwd, tag in variants:
                rc, text, snap = run(order, hs, cwd, tag, stale=ref if tag.startswith("repeat") else None,
                                     same_length=tag == "repeat_same_length")
                if rc != 0:
                    res["fails"].append(dict(basef, what="run %s (order %r, PYTHONHASHSEED=%s, cwd=%s) failed: %s"
                                             % (tag, order, hs, cwd, text[-300:])))
                    continue
                if snap != ref:
                    diff = sorted(n for n in set(ref) | set(snap) if ref.get(n) != snap.get(n))
                    res["fails"].append(dict(basef, what="outputs differ from the reference run for order %r, "
                                             "PYTHONHASHSEED=%s, cwd=%s: %s" % (order, hs, cwd, diff)))
            # compiling one file never changes what is generated for another
            for f in mains:
                rc, text, snap = run([f], "0", "d0", "alone_" + f)
                if rc != 0:
                    res["fails"].append(dict(basef, what="compiling %s alone failed: %s" % (f, text[-300:])))
                    continue
                for name, data in snap.items():
                    if ref.get(name) != data:
                        res["fails"].append(dict(basef, what="%s differs when %s is compiled alone vs together with %r"
                                                 % (name, f, mains)))
            if len(res["samples"]) < 1:
                res["samples"].append({"config": basef["config"], "files": sorted(ref), "variants": [v[3] for v in variants]})
            shutil.rmtree(root, ignore_errors=True)
    finally:
        shutil.rmtree(base, ignore_errors=True)
    return res


def independent_worker(seeds, wid, extra):
    """Independent input files that use the SAME type names for different
    definitions (random environments rendered with names T1..Tn): whatever is
    generated for a file must not depend on which other files share the run,
    nor on their order."""
    from . import gen
    from .cppwire import cpp_full_accepts
    res = {"fails": [], "n": 0, "runs": 0, "samples": []}
    base = tempfile.mkdtemp(prefix="vfind-", dir=extra.get("scratch"))
    try:
        for sd in seeds:
            rnd = random.Random(sd)
            root = os.path.join(base, "p%d" % sd)
            os.makedirs(root)
            texts = {}
            # the fixed-roles family names its root T5 in every file: a patch rule for that name applies to each
            patch_argv = []
            if sd % 2 == 0 and sd % 4 == 0:
                with open(os.path.join(root, "p.patch"), "w") as f:
                    f.write("T5 type f1 u16\n")
                patch_argv = ["--patch", "p.patch"]
            # base names that are no identifiers are legal file names too
            fnames = ("f1", "f2", "f3") if sd % 3 else ("f-1", "f2", "f.3")
            for name in fnames:
                while True:
                    env = S.Env(gen.gen_env(rnd) if sd % 2 else gen.gen_env_roles(rnd))
                    if cpp_full_accepts(env):
                        break
                texts[name] = env.render()
                with open(os.path.join(root, name + ".prophy"), "w") as f:
                    f.write(texts[name])

            def run(order, hashseed, tag):
                out = os.path.join(root, "o_" + tag)
                os.makedirs(out)
                argv = [n + ".prophy" for n in order] + ["--python_out", out, "--cpp_out", out, "--cpp_full_out", out,
                                                          "--prophy_out", out] + patch_argv
                rc, text = CL.run_cli(argv, cwd=root, env={"PYTHONHASHSEED": hashseed})
                res["runs"] += 1
                return rc, text, _snapshot(out)

            alone = {}
            basef = {"check": "determinism", "config": {"independent files sharing type names": texts}}
            ok = True
            for n in texts:
                rc, text, snap = run([n], "0", "alone_" + n)
                if rc != 0:
                    res["fails"].append(dict(basef, what="compiling %s alone failed: %s" % (n, text[-300:])))
                    ok = False
                alone.update(snap)
            res["n"] += 1
            if not ok:
                continue
            a, b, c = fnames
            for k, order in enumerate(([a, b, c], [c, b, a], [b, a], [b, c, a])):
                rc, text, snap = run(order, str(k), "t%d" % k)
                if rc != 0:
                    res["fails"].append(dict(basef, what="compiling %r together failed: %s" % (order, text[-300:])))
                    continue
                for name, data in sorted(snap.items()):
                    if alone.get(name) != data:
                        res["fails"].append(dict(basef, what="%s differs when its source is compiled together with others "
                                                 "(order %r) from compiling it alone" % (name, order)))
                        break
            shutil.rmtree(root, ignore_errors=True)
    finally:
        shutil.rmtree(base, ignore_errors=True)
    return res


def many_sizers_worker(seeds, wid, extra):
    """Schemas in which every collection a generator may gather has several
    members: a struct whose later part holds arrays counted by several sizers of
    an earlier part (fixed arrays turned into limited ones by a patch file).
    Compiled under different hash seeds and from another directory."""
    res = {"fails": [], "n": 0, "runs": 0}
    base = tempfile.mkdtemp(prefix="vfmsz-", dir=extra.get("scratch"))
    words = ["n", "m", "j", "k", "len", "cnt", "count", "num", "size", "total", "amount", "q", "w", "items", "nof", "sz"]
    try:
        for sd in seeds:
            rnd = random.Random(sd)
            root = os.path.join(base, "m%d" % sd)
            os.makedirs(os.path.join(root, "elsewhere"))
            k = rnd.randint(3, 6)
            sizers = rnd.sample(words, k)
            text = "struct X\n{\n" + "".join("    u%d %s;\n" % (rnd.choice((8, 16, 32)), z) for z in sizers)
            text += "    u8 d<@%s>;\n" % sizers[0]
            arrs = []
            for i, z in enumerate(sizers[1:-1]):
                arrs.append(("a%d" % i, z))
                text += "    u%d a%d[%d];\n" % (rnd.choice((8, 16, 32)), i, rnd.randint(2, 4))
            text += "    u32 b<@%s>;\n};\n" % sizers[-1]
            rnd.shuffle(arrs)
            patch = "".join("X limited %s %s\n" % a for a in arrs)
            with open(os.path.join(root, "x.prophy"), "w") as f:
                f.write(text)
            with open(os.path.join(root, "x.patch"), "w") as f:
                f.write(patch)
            basef = {"check": "determinism", "schema": text, "patch": patch}

            def run(hashseed, cwd, tag):
                out = os.path.join(root, "o_" + tag)
                os.makedirs(out)
                argv = [os.path.join(root, "x.prophy"), "--patch", os.path.join(root, "x.patch"), "--python_out", out,
                        "--cpp_out", out, "--cpp_full_out", out, "--prophy_out", out]
                rc, txt = CL.run_cli(argv, cwd=os.path.join(root, cwd), env={"PYTHONHASHSEED": hashseed})
                res["runs"] += 1
                return rc, txt, _snapshot(out)

            rc, txt, ref = run("0", ".", "ref")
            res["n"] += 1
            if rc != 0:
                res["fails"].append(dict(basef, what="baseline run failed (rc=%s): %s" % (rc, txt[-300:])))
                continue
            for hs, cwd in (("1", "."), ("2", "elsewhere"), ("3", "."), ("4", "."), ("5", "."), ("random", ".")):
                rc, txt, snap = run(hs, cwd, "s" + hs)
                if rc != 0 or snap != ref:
                    diff = sorted(n for n in set(ref) | set(snap) if ref.get(n) != snap.get(n))
                    res["fails"].append(dict(basef, what="outputs differ from the reference run (PYTHONHASHSEED=0) for "
                                             "PYTHONHASHSEED=%s, cwd=%s: %s %s" % (hs, cwd, diff, txt[-200:] if rc else "")))
                    break
            shutil.rmtree(root, ignore_errors=True)
    finally:
        shutil.rmtree(base, ignore_errors=True)
    return res


def same_basename_probe():
    """Two independent inputs whose outputs would carry the same names: either
    refused, or the outputs do not depend on the command-line order."""
    fails = []
    root = tempfile.mkdtemp(prefix="vfsbn-", dir=scratch_dir("det"))
    try:
        for d, text in (("d1", "struct A { u8 x; };\n"), ("d2", "struct B { u16 y; };\n")):
            os.makedirs(os.path.join(root, d))
            with open(os.path.join(root, d, "s.prophy"), "w") as f:
                f.write(text)
        snaps = []
        for k, order in enumerate((("d1", "d2"), ("d2", "d1"))):
            out = os.path.join(root, "o%d" % k)
            os.makedirs(out)
            rc, txt = CL.run_cli([os.path.join(root, d, "s.prophy") for d in order] + ["--python_out", out, "--cpp_out", out], cwd=root)
            snaps.append((rc, _snapshot(out)))
        if snaps[0][0] == 0 and snaps[1][0] == 0 and snaps[0][1] != snaps[1][1]:
            fails.append({"check": "determinism", "what": "d1/s.prophy and d2/s.prophy (independent, same base name) compile "
                          "silently to ONE set of outputs whose content follows the command-line order"})
        elif snaps[0][0] != snaps[1][0]:
            fails.append({"check": "determinism", "what": "same-named inputs: accepted in one command-line order (rc %r), "
                          "refused in the other (rc %r)" % (snaps[0][0], snaps[1][0])})
    finally:
        shutil.rmtree(root, ignore_errors=True)
    return fails


def c20(tier, replay):
    rep = Report("C20", tier)
    rep.assumptions = [
        "configurations (file placement, -I list, include lists, command-line order) are those of spec/FileProc.tla whose "
        "model-checked behaviour reports no error; ResolutionDeclarative is the design-level form of order independence",
        "each configuration is compiled by `python -m prophyc` subprocesses with all four back-ends: twice identically (the second time into a directory that still holds longer files of the same names), "
        "with PYTHONHASHSEED 1, 2 and random, from another working directory with absolute paths, with the command-line "
        "order permuted, and each input alone; all generated files are compared byte for byte",
        "plus triples of independent random schemas that reuse the same type names for different definitions, compiled "
        "alone and together in several orders",
        "plus structs whose later part holds arrays counted by several sizers of an earlier part (fixed arrays made "
        "limited by a patch file), compiled under six hash seeds and from another directory"]
    cases, stats = fileproc_cases()
    for st in stats:
        rep.add_tlc(st)
    rnd = random.Random(seed())
    ok_cases = [c for c in cases if not c["errors"]]
    multi = [c for c in ok_cases if len(c["mains"]) > 1]
    single = [c for c in ok_cases if len(c["mains"]) == 1]
    n = 40 if tier == "quick" else 600
    pick = rnd.sample(multi, min(len(multi), n)) + rnd.sample(single, min(len(single), n // 4))
    jobs = _chunks(pick, NCPU)
    with ProcessPoolExecutor(max_workers=NCPU) as ex:
        results = list(ex.map(determinism_worker, jobs, range(len(jobs)), [{"scratch": scratch_dir("det")}] * len(jobs)))
    nt = 0
    for r in results:
        rep.count(r["runs"])
        rep.validated(r["n"])
        nt += r["nontrivial"]
        for s in r["samples"]:
            rep.sample(s)
        for f in r["fails"]:
            rep.violation(f, shadows.match("C20", f))
    for k in range(nt):
        rep.nontrivial(k)
    # independent files that reuse type names for different definitions
    nind = 32 if tier == "quick" else 800
    seeds = [seed() * 100000 + k for k in range(nind)]
    with ProcessPoolExecutor(max_workers=NCPU) as ex:
        results = list(ex.map(independent_worker, _chunks(seeds, NCPU), range(NCPU), [{"scratch": scratch_dir("ind")}] * NCPU))
    for r in results:
        rep.count(r["runs"])
        rep.validated(r["n"])
        rep.cov["independent_file_triples"] = rep.cov.get("independent_file_triples", 0) + r["n"]
        for f in r["fails"]:
            rep.violation(f, shadows.match("C20", f))
    for f in same_basename_probe():
        rep.violation(f, shadows.match("C20", f))
    rep.count(2)
    # structs whose later part is counted by several sizers of an earlier part (patch file), under several hash seeds
    nms = 16 if tier == "quick" else 320
    seeds = [seed() * 100000 + k for k in range(nms)]
    with ProcessPoolExecutor(max_workers=NCPU) as ex:
        results = list(ex.map(many_sizers_worker, _chunks(seeds, NCPU), range(NCPU), [{"scratch": scratch_dir("msz")}] * NCPU))
    for r in results:
        rep.count(r["runs"])
        rep.validated(r["n"])
        rep.cov["many_sizer_schemas"] = rep.cov.get("many_sizer_schemas", 0) + r["n"]
        for f in r["fails"]:
            rep.violation(f, shadows.match("C20", f))
    rep.cov["configurations_model_checked"] = len(cases)
    rep.cov["configurations_run"] = len(pick)
    rep.cov["rule"] = ("configurations from TLC (spec/FileProc.tla) x {repeat, hash seeds, working directory, "
                       "command-line permutations, single-input runs}; evaluations = prophyc subprocess runs; "
                       "non-trivial = configurations with several main files")
    rep.cov["exhaustive"] = False
    return rep.finish()


# ---------------------------------------------------------------------------
# C12: legality
# ---------------------------------------------------------------------------
def rule_breakers(base, rnd):
    """One-edit rule breakers built on a legal base environment: the base's
    definitions, two helper types (an unlimited struct G and a dynamic struct
    D) and ONE victim definition that breaks exactly one documented rule.
    -> list of (label, defs)"""
    I, M, R = S.Int, S.Mem, S.Ref
    n = len(base)
    G, D, TG, TD, TTD, TF, K, K2 = n + 1, n + 2, n + 3, n + 4, n + 5, n + 6, n + 7, n + 8
    helpers = [S.StructDef([M("greedy", I(1))]), S.StructDef([M("dyn", I(2))]),
               S.TypedefDef(R(G)), S.TypedefDef(R(D)), S.TypedefDef(R(TD)), S.TypedefDef(S.Flt(4)),
               # unlimited only through their last member: with an own dynamic array in front of it / without
               S.StructDef([M("dyn", I(1)), M("plain", R(G))]), S.StructDef([M("plain", I(2)), M("plain", R(G))])]
    fixed_types = [I(1), I(4), S.Flt(8)]
    other = rnd.choice(fixed_types)
    out = []

    def victim(label, d):
        out.append((label, base + helpers + [d]))

    st = S.StructDef
    victim("greedy array not last", st([M("greedy", I(1)), M("plain", other)]))
    victim("unlimited struct not last", st([M("plain", R(G)), M("plain", other)]))
    victim("unlimited struct in fixed array", st([M("fixed", R(G), 2)]))
    victim("unlimited struct in dynamic array", st([M("dyn", R(G))]))
    victim("unlimited struct in limited array", st([M("lim", R(G), 2)]))
    victim("unlimited struct in greedy array", st([M("greedy", R(G))]))
    victim("unlimited struct in ext-sized array", st([M("plain", I(4)), M("ext", R(G), 0, 1)]))
    victim("dynamic struct in fixed array", st([M("plain", other), M("fixed", R(D), 3)]))
    victim("dynamic struct in limited array", st([M("lim", R(D), 2)]))
    victim("optional dynamic struct", st([M("opt", R(D)), M("plain", other)]))
    victim("optional unlimited struct", st([M("opt", R(G))]))
    victim("dynamic union arm", S.UnionDef([{"d": 1, "t": I(1)}, {"d": 2, "t": R(D)}]))
    victim("unlimited union arm", S.UnionDef([{"d": 1, "t": R(G)}]))
    victim("sizer after its array", st([M("ext", I(1), 0, 2), M("plain", I(4))]))
    victim("sizer missing", st([M("plain", I(4)), M("ext", I(1), 0, 9)]))
    victim("optional sizer", st([M("opt", I(4)), M("ext", I(1), 0, 1)]))
    victim("float sizer", st([M("plain", S.Flt(4)), M("ext", I(1), 0, 1)]))
    victim("struct sizer", st([M("plain", R(D)), M("ext", I(1), 0, 1)]))
    victim("zero fixed array size", st([M("fixed", I(2), 0)]))
    victim("zero array limit", st([M("lim", I(2), 0)]))
    victim("duplicate discriminators", S.UnionDef([{"d": 3, "t": I(1)}, {"d": 3, "t": I(2)}]))
    for lab, k in (("own dynamic array + nested unlimited tail", K), ("nested unlimited tail", K2)):
        victim("unlimited struct (%s) not last" % lab, st([M("plain", R(k)), M("plain", other)]))
        victim("unlimited struct (%s) in dynamic array" % lab, st([M("dyn", R(k))]))
        victim("unlimited struct (%s) in greedy array" % lab, st([M("greedy", R(k))]))
        victim("optional unlimited struct (%s)" % lab, st([M("opt", R(k))]))
    # the same rules with the offending type reached through typedefs
    victim("unlimited struct (typedef) not last", st([M("plain", R(TG)), M("plain", other)]))
    victim("unlimited struct (typedef) in dynamic array", st([M("dyn", R(TG))]))
    victim("unlimited struct (typedef) in fixed array", st([M("fixed", R(TG), 2)]))
    victim("dynamic struct (typedef) in fixed array", st([M("fixed", R(TD), 3)]))
    victim("dynamic struct (typedef chain) in limited array", st([M("lim", R(TTD), 2)]))
    victim("optional dynamic struct (typedef)", st([M("opt", R(TD))]))
    victim("optional dynamic struct (typedef chain)", st([M("opt", R(TTD)), M("plain", other)]))
    victim("optional unlimited struct (typedef)", st([M("opt", R(TG))]))
    victim("dynamic union arm (typedef)", S.UnionDef([{"d": 1, "t": I(1)}, {"d": 2, "t": R(TD)}]))
    victim("dynamic union arm (typedef chain)", S.UnionDef([{"d": 7, "t": R(TTD)}]))
    victim("unlimited union arm (typedef)", S.UnionDef([{"d": 1, "t": I(4)}, {"d": 2, "t": R(TG)}]))
    victim("float sizer (typedef)", st([M("plain", R(TF)), M("ext", I(1), 0, 1)]))
    victim("struct sizer (typedef)", st([M("plain", R(TD)), M("ext", I(1), 0, 1)]))
    # a sizer that is itself an array
    victim("dynamic array as sizer", st([M("dyn", I(1)), M("ext", I(2), 0, 1)]))
    victim("ext-sized array as sizer", st([M("plain", I(1)), M("ext", I(1), 0, 1), M("ext", I(2), 0, 2)]))
    victim("fixed array as sizer", st([M("fixed", I(4), 2), M("ext", I(2), 0, 1)]))
    return out


TEXT_BREAKERS = [
    ("duplicate member names", "struct V { u8 a; u16 a; };\n"),
    ("duplicate arm names", "union V { 1: u8 a; 2: u16 a; };\n"),
    ("negative array size", "struct V { u8 a[-1]; };\n"),
    ("negative limit", "struct V { u8 a<0 - 2>; };\n"),
    ("enumerator above 32 bits", "enum V { V_a = 0x100000000 };\n"),
    ("negative enumerator", "enum V { V_a = -1 };\n"),
    ("discriminator above 32 bits", "union V { 0x100000000: u8 a; };\n"),
    ("negative discriminator", "union V { -1: u8 a; };\n"),
    ("duplicate type name", "struct V { u8 a; };\nstruct V { u8 b; };\n"),
    ("duplicate enumerator name", "enum V { V_a = 1, V_a = 2 };\n"),
]


def legality_worker(items, wid, extra):
    """items: list of {"text", "expect": "accept"|"reject", "label", "rules", "cpp": bool}"""
    from . import cppleg as C
    res = {"fails": [], "n": 0, "samples": [], "nontrivial": 0, "n_accept": 0, "n_reject": 0, "n_cpp": 0}
    work = tempfile.mkdtemp(prefix="vfleg-", dir=extra.get("scratch"))
    try:
        for k, it in enumerate(items):
            sub = os.path.join(work, "i%d" % k)
            os.makedirs(sub)
            path = os.path.join(sub, "s.prophy")
            with open(path, "w") as f:
                f.write(it["text"])
            argv = [path, "--python_out", sub, "--cpp_out", sub]
            if it.get("cpp_full", True):
                argv += ["--cpp_full_out", sub]
            status, info, _ = CL.run_main(argv)
            res["n"] += 1
            basef = {"check": "legality", "label": it["label"], "schema": it["text"], "rules": it.get("rules")}
            if it["expect"] == "reject":
                res["n_reject"] += 1
                res["nontrivial"] += 1
                if status == "ok":
                    # does the runtime disagree?  (that is the harm the property names)
                    try:
                        P.import_generated(sub, "s")
                        rt = "the generated Python module imports"
                    except P.CompileFailure as e:
                        rt = "the generated Python module then fails: %s" % str(e)[:160]
                    res["fails"].append(dict(basef, what="prophyc accepts a schema that breaks a documented rule (%s: %s); %s"
                                             % (it["label"], it.get("rules"), rt)))
                elif status == "internal":
                    res["fails"].append(dict(basef, what="rule breaker (%s) ends in an internal exception: %s" % (it["label"], info)))
            else:
                res["n_accept"] += 1
                if status != "ok":
                    res["fails"].append(dict(basef, what="prophyc rejects a legal schema: %s" % (info,)))
                else:
                    try:
                        P.import_generated(sub, "s")
                    except P.CompileFailure as e:
                        res["fails"].append(dict(basef, what="legal schema accepted but the Python module is unusable: %s" % e))
                    if it.get("cpp"):
                        res["n_cpp"] += 1
                        for srcf, comp in (("s.ppf.cpp", "clang++-14"), ("s.pp.cpp", "g++")):
                            rc, out = C.run_cmd([comp, "-std=c++11", "-fsyntax-only", "-I", C.INCLUDE, "-I", sub, srcf], sub)
                            if rc != 0:
                                res["fails"].append(dict(basef, what="legal schema accepted but %s does not compile: %s"
                                                         % (srcf, out[-400:])))
            if len(res["samples"]) < 1 and it["expect"] == "reject":
                res["samples"].append({"label": it["label"], "schema": it["text"][-300:], "prophyc": status})
            shutil.rmtree(sub, ignore_errors=True)
    finally:
        shutil.rmtree(work, ignore_errors=True)
    return res


def c12(tier, replay):
    from . import gen
    from .cppwire import cpp_full_accepts
    rep = Report("C12", tier)
    rep.assumptions = [
        "legal schemas: random environments (vf/gen.py) certified legal by spec/Schema.tla via TLC; rule breakers: each "
        "legal environment + helper types + one victim definition breaking one documented rule; TLC (LayoutGiven) "
        "confirms each is illegal and names the violated rule",
        "rules that live below the abstract schema (duplicate names, negative sizes, values outside 32 bits) are text-level "
        "cases whose expectation is the documented rule itself",
        "identifiers avoid Python/C++ keywords; C++ usability is checked with -fsyntax-only on a sample of the legal schemas"]
    rnd = random.Random(seed())
    nbase = 40 if tier == "quick" else 400
    bases = [gen.gen_env(rnd) for _ in range(nbase)]
    envs, meta = [], []
    for bi, b in enumerate(bases):
        envs.append(b)
        meta.append(("legal base", "accept"))
        if bi % 2 == 0 or tier != "quick":
            for label, defs in rule_breakers(b, rnd):
                envs.append(defs)
                meta.append((label, "reject"))
    lays, st = wire.layout_of(envs)
    rep.add_tlc(st)
    items = []
    for (label, expect), defs, l in zip(meta, envs, lays):
        if expect == "accept" and not l["legal"]:
            raise MachineryError("generator produced an environment the specification calls illegal")
        if expect == "reject" and l["legal"]:
            raise MachineryError("rule breaker %r is legal per the specification" % label)
        env = S.Env(defs)
        items.append({"text": env.render(), "expect": expect, "label": label, "rules": l.get("rules"),
                      "cpp": expect == "accept" and cpp_full_accepts(env) and len(items) % 3 == 0,
                      "cpp_full": cpp_full_accepts(env)})
    for b in bases[:6 if tier == "quick" else 40]:
        env = S.Env(b)
        for label, text in TEXT_BREAKERS:
            items.append({"text": env.render() + "\n" + text, "expect": "reject", "label": label,
                          "rules": ["text-level rule"], "cpp": False})
    # degenerate but legal schemas: every artefact must still be usable
    for label, text in (("comments only", "// nothing\n/* at all */\n"), ("empty file", ""), ("one constant", "const K = 3;\n"),
                        ("one enum", "enum E { E_a = 1 };\n"), ("one typedef", "typedef u8 T;\n"),
                        ("typedef of typedef", "typedef u16 T;\ntypedef T TT;\nstruct X { TT a; };\n"),
                        # one-letter names: the generated C++ uses E and T as template parameter names
                        ("line comment at end of file without newline", "struct A { u8 x; };\n// the end"),
                        ("block comment at end of file", "struct A { u8 x; };\n/* the end */"),
                        ("no newline at all", "struct A { u8 x; };"),
                        ("struct named E", "struct E { u32 a; };\nstruct X { E e; u8 b; };\n"),
                        ("struct named T", "struct T { u32 a; };\nstruct X { T t<>; };\n"),
                        ("enum named E", "enum E { E_a = 1 };\nstruct X { E e; };\n")):
        items.append({"text": text, "expect": "accept", "label": label, "rules": [], "cpp": True, "cpp_full": True})
    jobs = _chunks(items, NCPU)
    with ProcessPoolExecutor(max_workers=NCPU) as ex:
        results = list(ex.map(legality_worker, jobs, range(len(jobs)), [{"scratch": scratch_dir("leg")}] * len(jobs)))
    nt = 0
    for r in results:
        rep.count(r["n"])
        rep.validated(r["n"])
        nt += r["nontrivial"]
        for k in ("n_accept", "n_reject", "n_cpp"):
            rep.cov[k] = rep.cov.get(k, 0) + r[k]
        for s in r["samples"]:
            rep.sample(s)
        for f in r["fails"]:
            rep.violation(f, shadows.match("C12", f))
    for k in range(nt):
        rep.nontrivial(k)
    rep.cov["rule"] = ("TLC evaluates the legality rules of spec/Schema.tla on every environment (legal bases and one-edit "
                       "rule breakers) and names the violated rule; prophyc must accept exactly the legal ones and every "
                       "requested artifact of an accepted schema must be usable; non-trivial = rule breakers")
    rep.cov["exhaustive"] = False
    return rep.finish()


# ---------------------------------------------------------------------------
# C13: termination with outputs or a designed diagnostic
# ---------------------------------------------------------------------------
BANNED = ("ValueError", "KeyError", "AttributeError", "TypeError", "IndexError", "AssertionError", "RecursionError",
          "UnboundLocalError", "NameError", "ZeroDivisionError", "MemoryError", "OSError", "LookupError", "ArithmeticError",
          "UnicodeError", "RuntimeError", "SyntaxError")

VALID_PROPHY = """\
const LIMIT = 4;
enum Color { Color_red = 1, Color_green = 2 };
typedef u16 word_t;
struct Point { u8 x; word_t y; };
union Shape { 1: u32 circle; 2: Point corner; };
struct Picture { Color c; Point pts<LIMIT>; Shape s; u8* opt; bytes name<>; u32 tail<...>; };
"""

VALID_ISAR = """\
<defs>
  <constant name="LIMIT" value="4"/>
  <enum name="Color"><enum-member name="Color_red" value="1"/><enum-member name="Color_green" value="2"/></enum>
  <typedef name="word_t" primitiveType="16 bit integer unsigned"/>
  <struct name="Point"><member name="x" type="u8"/><member name="y" type="word_t"/></struct>
  <union name="Shape"><member name="circle" type="u32" discriminatorValue="1"/><member name="corner" type="Point" discriminatorValue="2"/></union>
  <struct name="Picture"><member name="c" type="Color"/><member name="pts" type="Point"><dimension size="LIMIT" isVariableSize="true"/></member><member name="s" type="Shape"/></struct>
</defs>
"""


def _tokens(text):
    import re
    return re.findall(r"\w+|[^\w\s]|\s+", text)


PROPHY_VOCAB = ["struct", "union", "enum", "typedef", "const", "bytes", "u8", "u16", "u32", "u64", "i8", "i64", "float",
                "double", "{", "}", "[", "]", "<", ">", "<>", "...", "@", "*", ";", ":", ",", "=", "+", "-", "/", "<<", ">>",
                "(", ")", "0", "1", "-1", "07", "08", "0x", "0xFF", "4294967296", "LIMIT", "Color", "Color_red", "Point",
                "Shape", "Picture", "word_t", "nosuch", "x", "pts", "#include", '"main.prophy"', "//", "/*", "*/", "\n"]
ISAR_VOCAB = ["<struct", "<message", "<union", "<enum", "<typedef", "<constant", "<member", "<dimension", "<enum-member",
              "/>", ">", "</struct>", "</defs>", "</enum>", 'name="Point"', 'name="x"', 'name=""', 'type="Point"',
              'type="u8"', 'type="nosuch"', 'type=""', 'value="4"', 'value="-1"', 'value="LIMIT + 1"', 'value="x y"',
              'size="LIMIT"', 'size="0"', 'size="-1"', 'size2="3"', 'isVariableSize="true"', 'optional="true"',
              'variableSizeFieldName="@x"', 'variableSizeFieldName="nosuch"', 'variableSizeFieldType="u8"',
              'discriminatorValue="1"', 'primitiveType="16 bit integer unsigned"', 'primitiveType="bogus"', "&amp;", "&"]


def fuzz_tokens(text, rnd, vocab):
    """1-3 random token edits (replace / insert / delete / duplicate a line)"""
    import re
    toks = re.findall(r"\s+|<[^<>\s]*|[A-Za-z_][\w-]*=\"[^\"]*\"|\w+|[^\w\s]", text)
    for _ in range(rnd.randint(1, 3)):
        idx = [i for i, t in enumerate(toks) if t.strip()]
        if not idx:
            break
        i = rnd.choice(idx)
        op = rnd.random()
        if op < 0.4:
            toks[i] = rnd.choice(vocab)
        elif op < 0.7:
            toks.insert(i, " " + rnd.choice(vocab) + " ")
        elif op < 0.9:
            del toks[i]
        else:
            toks[i:i] = toks[max(0, i - 6):i]
    return "".join(toks)


_cycle_pos = [0]


def _cycle(options):
    """every option in turn (the case list repeats this patch class often enough)"""
    _cycle_pos[0] += 1
    return options[_cycle_pos[0] % len(options)]


def concretise(case, rnd, root):
    """A Pipeline case -> (argv, files to write, expected outputs or None)"""
    fe, fault, pos, pfault, ofault = case["fe"], case["fault"], case["pos"], case["pfault"], case["ofault"]
    files = {}
    out = os.path.join(root, "out")
    ext = ".prophy" if fe == "prophy" else ".xml"
    main = "main" + ext
    text = VALID_PROPHY if fe == "prophy" else VALID_ISAR
    extra_argv = []

    def variant(options):
        # the replicates of a case walk through the variants of its fault class one after the other
        return options[case["rep"] % len(options)] if "rep" in case else rnd.choice(options)
    if fe == "prophy":
        toks = [t for t in _tokens(text)]
        idx = [i for i, t in enumerate(toks) if t.strip()]
        if fault == "delete_token":
            del toks[idx[(pos * 7) % len(idx)]]
            text = "".join(toks)
        elif fault == "swap_tokens":
            i, j = idx[(pos * 5) % len(idx)], idx[(pos * 11 + 3) % len(idx)]
            toks[i], toks[j] = toks[j], toks[i]
            text = "".join(toks)
        elif fault == "illegal_char":
            toks.insert(idx[(pos * 3) % len(idx)], rnd.choice(["$", "`", "\\", "\x00", "\u00e9", "'", "\"", "~", "?"]))
            text = "".join(toks)
        elif fault == "undefined_type":
            text += "struct Z { Nowhere n; };\n"
        elif fault == "duplicate_name":
            text += "struct Point { u8 again; };\n"
        elif fault == "division_by_zero":
            text += "const Z = 1 / (LIMIT - 4);\nstruct ZZ { u8 a[4 / 0 + 1]; };\n"
        elif fault == "negative_size":
            text += "struct Z { u8 a[LIMIT - 9]; };\n"
        elif fault == "missing_include":
            text = '#include "nowhere.prophy"\n' + text
        elif fault == "cyclic_include":
            files["other.prophy"] = '#include "main.prophy"\nstruct O { u8 o; };\n'
            text = '#include "other.prophy"\n' + text
        elif fault == "self_include":
            text = '#include "main.prophy"\n' + text
        elif fault == "self_recursive_struct":
            text += "struct Z { u8 a; Z z; };\n"
        elif fault == "mutually_recursive_structs":
            text += "struct Z1 { Z2 z; };\nstruct Z2 { Z1 z; };\n"
        elif fault == "unterminated_comment":
            text += "/* no end\nstruct Z { u8 a; };\n"
        elif fault == "empty_file":
            text = rnd.choice(["", "\n\n", "// nothing\n", "/* */"])
        elif fault == "random_text":
            text = "".join(rnd.choice("abc{};<>[]=,:*@#\"./ \n\t0123456789xstructenumunion\u00e9\u4e2d") for _ in range(rnd.randint(1, 200)))
        elif fault == "constant_as_type":
            text += "struct Z { LIMIT l; Color_red r; };\n"
        elif fault == "greedy_not_last":
            text += "struct Z { u8 g<...>; u8 after; };\n"
        elif fault == "token_fuzz":
            text = fuzz_tokens(text, rnd, PROPHY_VOCAB)
        elif fault == "self_typedef_sizer":
            text += "typedef ZT ZT;\nstruct Z { ZT n; u8 a<@n>; };\n"
        elif fault == "negative_shift":
            text += "const Z = 1 << -1;\nconst Z2 = 8 >> (LIMIT - 5);\n"
        elif fault == "huge_shift":
            text += "const Z = 1 << 4000;\nenum ZE { ZE_a = 1 << 70 };\n"
        elif fault == "huge_literal":
            # literals / values beyond the interpreter's integer <-> text conversion limit (4300 digits since 3.11)
            text += variant(["const Z = %s;\n" % ("9" * 5000),
                             "const Z = " + "*".join(["(1<<1024)"] * 15) + ";\n",
                             "const Z = 0x%s;\n" % ("f" * 5000)])
        elif fault == "huge_array":
            text += "struct Z { u8 a[1 << 40]; u64 b<1 << 35>; };\n"
        elif fault == "deep_parentheses":
            text += "const Z = " + "(" * 400 + "1" + ")" * 400 + ";\n"
        elif fault == "nul_byte":
            text = text[:40] + "\x00" + text[40:]
        elif fault == "byte_order_mark":
            text = "\ufeff" + text
        elif fault == "typedef_of_undefined":
            text += "typedef Nowhere Z;\nstruct ZZ { Z z; };\n"
        elif fault == "union_self_arm":
            text += "union Z { 1: u8 a; 2: Z z; };\n"
        elif fault == "enum_self_reference":
            text += "enum Z { Z_a = Z_a + 1, Z_b = Z_c };\n"
        elif fault == "deep_typedef_chain":
            n = rnd.choice([1200, 3000])
            text += "typedef u32 ZT0;\n" + "".join("typedef ZT%d ZT%d;\n" % (i, i + 1) for i in range(n)) + \
                "struct ZS { ZT%d n; u8 x<@n>; ZT%d y; };\n" % (n, n - 1)
        elif fault == "absurd_shift":
            text += "const Z = 1 << %s;\n" % rnd.choice(["99999999999999", "(1 << 62)", "0x7FFFFFFFFFFFFFFF"])
        elif fault == "non_utf8":
            text = text[:30] + rnd.choice(["\udcff", "\udc80\udcfe", "\udcc3("]) + text[30:]     # written with surrogateescape
        elif fault == "non_utf8_include":
            files["other.prophy"] = "struct O { u8 o; };\n// \udcff\udcfe\n"
            text = '#include "other.prophy"\n' + text
        elif fault == "include_directory":
            files["subdir/placeholder.prophy"] = "struct O { u8 o; };\n"
            text = '#include "subdir"\n' + text
    else:
        if fault == "malformed_xml":
            text = text.replace("</struct>", "", 1)
        elif fault == "type_cycle":
            text = text.replace("</defs>", '<struct name="CA"><member name="b" type="CB"/></struct><struct name="CB"><member name="a" type="CA"/></struct></defs>')
        elif fault == "self_reference":
            text = text.replace("</defs>", '<struct name="CS"><member name="s" type="CS"/></struct></defs>')
        elif fault == "constant_cycle":
            text = text.replace("</defs>", '<constant name="K1" value="K2 + 1"/><constant name="K2" value="K1 + 1"/></defs>')
        elif fault == "undefined_type":
            text = text.replace("</defs>", '<struct name="Z"><member name="n" type="Nowhere"/></struct></defs>')
        elif fault == "duplicate_enum_value":
            text = text.replace('value="2"/></enum>', 'value="1"/></enum>')
        elif fault == "missing_include":
            text = text.replace("<defs>", '<defs><xi:include xmlns:xi="http://www.w3.org/2001/XInclude" href="nowhere.xml"/>')
        elif fault == "bad_dimension":
            text = text.replace('size="LIMIT" isVariableSize="true"', variant([
                'size="many" isVariableSize="true"', 'size2="4"', 'size="" isVariableSize="true"',
                'size="LIMIT" isVariableSize="true" variableSizeFieldName=""', 'size="LIMIT" size2=""',
                'size="THIS_IS_VARIABLE_SIZE_ARRAY" size2="2"', 'variableSizeFieldName="@"', 'size="LIMIT" variableSizeFieldType=""',
                # every attribute of a dimension present but empty
                'size="LIMIT" isVariableSize=""', 'size="LIMIT" variableSizeFieldName=""',
                'size="THIS_IS_VARIABLE_SIZE_ARRAY" variableSizeFieldName=""', 'size="LIMIT" isVariableSize="true" variableSizeFieldType=""']))
        elif fault == "member_without_name":
            text = text.replace('<member name="x" type="u8"/>', '<member type="u8"/>')
        elif fault == "member_without_type":
            text = text.replace('<member name="x" type="u8"/>', '<member name="x"/>')
        elif fault == "empty_root":
            text = variant(["<defs/>", "<defs></defs>", "", "<?xml version='1.0'?>"])
        elif fault == "random_text":
            text = "".join(rnd.choice("<>/=\"abc defs struct member name type 123\n") for _ in range(rnd.randint(1, 200)))
        elif fault == "token_fuzz":
            text = fuzz_tokens(text, rnd, ISAR_VOCAB)
        elif fault == "self_typedef_member":
            text = text.replace("</defs>", '<typedef name="ZT" type="ZT"/><struct name="Z"><member name="a" type="ZT"/></struct></defs>')
        elif fault == "typedef_cycle_member":
            text = text.replace("</defs>", '<typedef name="ZA" type="ZB"/><typedef name="ZB" type="ZA"/><struct name="Z"><member name="a" type="ZA"/></struct></defs>')
        elif fault == "union_self_arm":
            text = text.replace("</defs>", '<union name="ZU"><member name="a" type="u8" discriminatorValue="1"/><member name="z" type="ZU" discriminatorValue="2"/></union></defs>')
        elif fault == "negative_shift_constant":
            text = text.replace("</defs>", variant([
                '<constant name="ZK" value="1 &lt;&lt; -1"/><struct name="Z"><member name="a" type="u8"><dimension size="ZK"/></member></struct></defs>',
                '<constant name="ZK" value="256 &gt;&gt; -1"/></defs>',
                '<constant name="ZS" value="2 - 3"/><constant name="ZK" value="256 &gt;&gt; ZS"/><struct name="Z"><member name="a" type="u8"><dimension size="16 &gt;&gt; ZS"/></member></struct></defs>']))
        elif fault == "huge_dimension":
            text = text.replace('size="LIMIT"', 'size="99999999999999999999"')
        elif fault == "dangling_expression":
            text = text.replace('size="LIMIT"', 'size="LIMIT +"')
        elif fault == "typedef_without_type":
            text = text.replace("</defs>", '<typedef name="ZT"/><struct name="Z"><member name="a" type="ZT"/></struct></defs>')
        elif fault == "enum_without_members":
            text = text.replace("</defs>", '<enum name="ZE"/><struct name="Z"><member name="a" type="ZE"/></struct></defs>')
        elif fault == "non_numeric_enum_value":
            text = text.replace('value="2"/></enum>', 'value="two"/></enum>')
        elif fault == "non_numeric_discriminator":
            text = text.replace('discriminatorValue="1"', 'discriminatorValue="one"')
        elif fault == "absurd_shift":
            text = text.replace("</defs>", '<constant name="ZK" value="1 &lt;&lt; 99999999999999"/><enum name="ZE"><enum-member name="ZE_a" '
                                           'value="shiftLeft(1, 8888888888888)"/></enum></defs>')
        elif fault == "empty_member_name":
            text = text.replace("</defs>", variant([
                '<struct name="Z"><member name="" type="u8"><dimension size="THIS_IS_VARIABLE_SIZE_ARRAY"/></member></struct></defs>',
                '<struct name="Z"><member name="" type="u8"/></struct></defs>',
                '<struct name=""><member name="a" type=""/></struct></defs>']))
        elif fault == "non_utf8":
            text = text.replace("<defs>", "<defs><!-- \udcff\udcfe -->", 1)
        elif fault == "division_by_zero":
            text = text.replace("</defs>", variant([
                '<constant name="ZK" value="1/0"/></defs>',
                '<constant name="ZZ" value="0"/><struct name="Z"><member name="a" type="u8"><dimension size="4/ZZ"/></member></struct></defs>',
                '<enum name="ZE"><enum-member name="ZE_a" value="5 / (2 - 2)"/></enum></defs>']))
        elif fault == "huge_literal":
            text = text.replace("</defs>", '<constant name="ZK" value="%s"/><struct name="Z"><member name="a" type="u8">'
                                           '<dimension size="ZK"/></member></struct></defs>' % ("9" * 5000))
        elif fault == "malformed_operator_call":
            # the operator calls other_schemas.rst documents for isar values, not closed / with a wrong argument count
            text = text.replace("</defs>", variant([
                '<constant name="ZK" value="shiftLeft(1, 4"/></defs>',
                '<enum name="ZE"><enum-member name="ZE_a" value="bitMaskOr(1, shiftLeft(1, 3)"/></enum></defs>',
                '<constant name="ZK" value="shiftLeft((1, 4)"/></defs>',
                '<constant name="ZK" value="bitMaskOr("/></defs>',
                '<constant name="ZK" value="shiftLeft(1, 2, 3)"/></defs>',
                '<enum name="ZE"><enum-member name="ZE_a" value="shiftLeft()"/></enum></defs>']))
        elif fault == "size_names_type":
            text = text.replace("</defs>", variant([
                '<typedef name="ZT" primitiveType="32 bit integer unsigned"/><struct name="Z"><member name="a" type="u8"><dimension size="ZT"/></member></struct></defs>',
                '<struct name="ZS"><member name="q" type="u8"/></struct><struct name="Z"><member name="a" type="u8"><dimension size="ZS"/></member></struct></defs>',
                '<typedef name="ZT" type="u16"/><enum name="ZE"><enum-member name="ZE_a" value="ZT"/></enum></defs>']))
    files[main] = text
    argv = [os.path.join(root, main)]
    if fe == "isar":
        argv.append("--isar")
    outputs = ["--python_out", out, "--cpp_out", out, "--cpp_full_out", out, "--prophy_out", out]
    if pfault != "none":
        patch = {"one_word_line": "Picture\n", "unknown_action": "Picture explode c\n",
                 "wrong_param_count": "Picture type c\n", "member_not_found": "Picture type nosuch u8\n",
                 "non_integer_index": "Picture insert first extra u8\n", "absent_message": "NoSuchMessage type a u8\n",
                 "empty_patch": "\n\n", "non_utf8_patch": "Picture type c u8 \udcff\n",
                 # valid rules on other node kinds and with every action (must simply work)
                 "valid_rules": _cycle(["Shape rename circle ring\n", "Shape rename Form\nPoint rename Dot\n",
                                            "Color rename Colour\n", "word_t rename half_t\n", "Shape struct\n",
                                            "Picture rename pts points\nPicture rename pts_len count\n",
                                            "Picture insert 1 extra u16\nPicture remove c\n",
                                            "Picture type c u32\nPicture greedy pts\n" if False else "Picture type c u32\n",
                                            "Point type x u64\nPicture static pts 2\n"]),
                 "bad_size_expression": rnd.choice(["Picture static pts 16>>-2\n", "Picture static pts 1/0\n",
                                                    "Picture static pts 1<<-1\n", "Picture static pts 4+\n"])}[pfault]
        files["fix.patch"] = patch
        argv += ["--patch", os.path.join(root, "fix.patch")]
    if ofault == "no_input":
        argv = outputs
    elif ofault == "no_output":
        pass
    elif ofault == "missing_input_file":
        argv = [os.path.join(root, "absent" + ext)] + argv[1:] + outputs
    elif ofault == "isar_and_sack":
        argv += ["--isar", "--sack"] + outputs
    elif ofault == "missing_include_dir":
        argv += ["-I", os.path.join(root, "no_such_dir")] + outputs
    elif ofault == "missing_patch_file":
        argv += ["--patch", os.path.join(root, "absent.patch")] + outputs
    elif ofault == "unknown_option":
        argv += ["--frobnicate"] + outputs
    else:
        argv += outputs
    return argv, files, out


_Alarm = CL.Watchdog


def _on_alarm(sig, frm):
    raise _Alarm()


def termination_worker(cases, wid, extra):
    import signal
    res = {"fails": [], "n": 0, "samples": [], "nontrivial": 0, "outcomes": {}, "foreign": {}}
    watchdog_install(_on_alarm)
    rnd = random.Random(extra["seed"] * 977 + wid)
    base = tempfile.mkdtemp(prefix="vfterm-", dir=extra.get("scratch"))
    try:
        for k, case in enumerate(cases):
            root = os.path.join(base, "c%d" % k)
            os.makedirs(os.path.join(root, "out"))
            argv, files, out = concretise(case, rnd, root)
            for name, text in files.items():
                os.makedirs(os.path.dirname(os.path.join(root, name)), exist_ok=True)
                with open(os.path.join(root, name), "w", encoding="utf-8", errors="surrogateescape") as f:
                    f.write(text)
            res["n"] += 1
            if case["fault"] != "none" or case["pfault"] != "none" or case["ofault"] != "none":
                res["nontrivial"] += 1
            watchdog_start(8)
            try:
                status, info, _ = CL.run_main(argv)
            except _Alarm:
                status, info = "timeout", "no answer within 8 s"
            finally:
                watchdog_stop()
            exc_type = info.split(":", 1)[0] if status == "internal" else ""
            exc_base = exc_type[exc_type.find("<") + 1:-1] if "<" in exc_type else exc_type
            key = "%s/%s/%s/%s -> %s%s" % (case["fe"], case["fault"], case["pfault"], case["ofault"], status,
                                            (" " + exc_type) if exc_type else "")
            res["outcomes"][key] = res["outcomes"].get(key, 0) + 1
            basef = {"check": "termination", "case": case, "argv": [a.replace(root, "<dir>") for a in argv],
                     "files": files}
            if status == "timeout":
                res["fails"].append(dict(basef, what="prophyc did not terminate within 8 s of CPU time on %s/%s" % (case["fe"], case["fault"])))
            elif status == "internal":
                if exc_type in BANNED or exc_base in BANNED:
                    res["fails"].append(dict(basef, what="internal exception escaped as the answer: %s" % info[:300],
                                             exception=exc_base if exc_base in BANNED else exc_type))
                else:
                    res["foreign"][exc_type] = res["foreign"].get(exc_type, 0) + 1
            elif status == "ok" and case["ofault"] == "none":
                missing = [e for e in (".py", ".pp.hpp", ".pp.cpp", ".ppf.hpp", ".ppf.cpp", ".prophy")
                           if not os.path.exists(os.path.join(out, "main" + e))]
                if missing:
                    res["fails"].append(dict(basef, what="prophyc succeeded but did not write %r" % (missing,)))
            if len(res["samples"]) < 1 and case["fault"] not in ("none",):
                res["samples"].append({"case": case, "outcome": status, "info": str(info)[:200]})
            shutil.rmtree(root, ignore_errors=True)
    finally:
        shutil.rmtree(base, ignore_errors=True)
    return res


def c13(tier, replay):
    rep = Report("C13", tier)
    rep.assumptions = [
        "spec/Pipeline.tla is the outcome automaton (phases, where each fault class is detected, no internal-exception "
        "outcome, no re-entry); spec/TopoSort.tla refutes termination of the sort on cyclic graphs; spec/FileProc.tla "
        "covers the include error paths - TLC enumerates the structured fault space",
        "each case is concretised on two fixed valid schemas (prophy text and isar XML) with seeded token positions and "
        "random text; prophyc.main runs in-process under a watchdog of 8 s of the process's own CPU time (ITIMER_PROF; wall-clock "
        "backstop 320 s) - healthy runs take milliseconds",
        "violations: timeout, or an escaping exception whose type - or one of its base classes (UnicodeDecodeError is a "
        "ValueError) - is in the property's list (+ NameError, LookupError, ArithmeticError, RuntimeError, MemoryError, "
        "OSError); prophyc's own exception classes (ProphycError, ModelError, calc/parser ParseError, the patcher's plain "
        "Exception) are its designed channel and are tabulated in the evidence"]
    cases = []
    res = run_tlc("Pipeline", {}, invariants=["DesignedOnly", "AllOrNothing", "PDump"], properties=["Terminates", "Monotone"],
                  spec="PSpec", prefix=("PCASE",), on_line=lambda t, b: cases.append(json.loads(b)))
    rep.add_tlc(res.stats)
    reps = 4 if tier == "quick" else 60
    fz = 6 if tier == "quick" else 400
    allcases = [dict(c, rep=i) for c in cases for i in range(16 if c["pfault"] == "valid_rules" else fz if c["fault"] == "token_fuzz" else
                                                max(reps, 12) if c["fault"] == "bad_dimension" else
                                                reps if c["fault"] in ("random_text", "illegal_char", "empty_file", "division_by_zero",
                                                                        "size_names_type", "non_utf8", "absurd_shift", "negative_shift_constant",
                                                                        "empty_member_name", "deep_typedef_chain", "bad_dimension") else
                                                max(reps, 6) if c["fault"] == "malformed_operator_call" else 3 if c["fault"] == "huge_literal" else 1)]
    jobs = _chunks(allcases, NCPU)
    with ProcessPoolExecutor(max_workers=NCPU) as ex:
        results = list(ex.map(termination_worker, jobs, range(len(jobs)),
                              [{"scratch": scratch_dir("term"), "seed": seed()}] * len(jobs)))
    nt = 0
    outcomes, foreign = {}, {}
    for r in results:
        rep.count(r["n"])
        rep.validated(r["n"])
        nt += r["nontrivial"]
        for k, v in r["outcomes"].items():
            outcomes[k] = outcomes.get(k, 0) + v
        for k, v in r["foreign"].items():
            foreign[k] = foreign.get(k, 0) + v
        for s in r["samples"]:
            rep.sample(s)
        for f in r["fails"]:
            rep.violation(f, shadows.match("C13", f))
    for k in range(nt):
        rep.nontrivial(k)
    rep.cov["outcomes"] = outcomes
    rep.cov["foreign_exception_types"] = foreign
    rep.cov["rule"] = ("TLC enumerates (front-end, fault class, position, patch fault, option fault) from spec/Pipeline.tla; "
                       "each is turned into concrete files and options and run; non-trivial = any fault present")
    rep.cov["exhaustive"] = False
    return rep.finish()


# ---------------------------------------------------------------------------
# C17: front-ends agree (spec/Frontends.tla)
# ---------------------------------------------------------------------------
def _tname(t):
    if t["k"] == "int":
        return S.INT_NAMES[(t["w"], t["s"])]
    return "T%d" % t["i"]


FE_BASE = [S.EnumDef([1, 2]), S.StructDef([S.Mem("plain", S.Int(2)), S.Mem("plain", S.Int(1))])]
FE_BASE_ISAR = ('<enum name="T1"><enum-member name="T1_e1" value="1"/><enum-member name="T1_e2" value="2"/></enum>'
                '<struct name="T2"><member name="f1" type="u16"/><member name="f2" type="u8"/></struct>')


def fe_isar(case):
    ms = []
    for m in case["ims"]:
        # the optional flag in the spellings the parser takes for true; "false" spellings on the others
        spell = ("true", "True", "TRUE")[(len(case["script"]) + len(m["nm"]) + m["n"]) % 3]
        off = ("", ' optional="false"', ' optional="False"')[(len(case["script"]) + m["n"]) % 3]
        attrs = 'name="%s" type="%s"%s' % (m["nm"], _tname(m["t"]), (' optional="%s"' % spell) if m["opt"] else off)
        # (a fixed array may say isVariableSize="false" explicitly)
        dim = {"none": "", "size": ('<dimension size="%d"/>' if m["n"] % 2 else '<dimension size="%d" isVariableSize="false"/>') % m["n"],
               # both factors written as sums: the product must be of the two VALUES
               "size2": '<dimension size="1+%d" size2="%d+1" isVariableSize="False"/>' % (m["n"] - 1, m["aux"] - 1),
               "var": '<dimension isVariableSize="true"/>',
               "varsize": '<dimension size="%d" isVariableSize="true"/>' % m["n"],
               "varsize2": '<dimension size="%d+1" size2="1+%d" isVariableSize="true"/>' % (m["n"] - 1, m["aux"] - 1),
               "varnamed": '<dimension isVariableSize="true" variableSizeFieldName="cnt_%s" variableSizeFieldType="u%d"/>'
                           % (m["nm"], 8 * (m["aux"] or 1)),
               "at": '<dimension variableSizeFieldName="@f1"/>',
               "this": '<dimension size="THIS_IS_VARIABLE_SIZE_ARRAY"/>',
               }[m["dim"]]
        ms.append("<member %s>%s</member>" % (attrs, dim) if dim else "<member %s/>" % attrs)
    tag = "message" if case["inMessage"] else "struct"
    x = "<%s name=\"X\">%s</%s>" % (tag, "".join(ms), tag)
    # isar definitions come in any order: X is written BEFORE the types it uses whenever a type is renamed by the
    # patch (the patch runs on the list as parsed, before the sort) and in every other case otherwise
    if any(r["op"] == "rename_type" for r in case["script"]) or len(case["ims"]) % 2 == 1:
        return "<defs>%s%s</defs>\n" % (x, FE_BASE_ISAR)
    return "<defs>%s%s</defs>\n" % (FE_BASE_ISAR, x)


def fe_patch(case):
    lines = []
    for r in case["script"]:
        op = r["op"]
        if op == "absent":
            lines.append("Nowhere type a u8")
        elif op == "type":
            lines.append("X type %s %s" % (r["a"], _tname(r["t"])))
        elif op == "insert":
            lines.append("X insert %d %s %s" % (r["n"], r["a"], _tname(r["t"])))
        elif op in ("remove", "greedy"):
            lines.append("X %s %s" % (op, r["a"]))
        elif op == "rename":
            lines.append("X rename %s %s" % (r["a"], r["b"]))
        elif op == "rename_type":
            lines.append("%s rename %s" % (r["a"], r["b"]))
        elif op == "static":
            lines.append("X static %s %d" % (r["a"], r["n"]))
        elif op in ("dynamic", "limited"):
            lines.append("X %s %s %s" % (op, r["a"], r["b"]))
    return "\n".join(lines) + ("\n" if lines else "")


def fe_target_env(case):
    """members (named) -> Schema defs + member names of the root struct"""
    names = [m["nm"] for m in case["members"]]
    ms = []
    for m in case["members"]:
        f = m["f"]
        c = names.index(m["szr"]) + 1 if m["szr"] in names else 0
        if f == "ext":
            ms.append(S.Mem("ext", m["t"], 0, c))
        elif f == "limext":
            ms.append(S.Mem("limx", m["t"], m["n"], c))
        else:
            ms.append(S.Mem(f, m["t"], m["n"], 0))
    return FE_BASE + [S.StructDef(ms)], names


def fe_prophy_text(defs):
    """The target in prophy text, if expressible: a u32 counter used by exactly
    the next member becomes T x<> / T x<N>."""
    ms = defs[-1]["ms"]
    lines, skip = [], set()
    uses = {}
    for j, m in enumerate(ms, 1):
        if m["f"] in ("ext", "limx"):
            uses.setdefault(m["c"], []).append(j)
    for j, m in enumerate(ms, 1):
        own = (m["f"] in ("ext", "limx") and m["c"] == j - 1 and uses[m["c"]] == [j]
               and ms[j - 2]["f"] == "plain" and ms[j - 2]["t"] == S.Int(4))
        if own:
            skip.add(j - 1)
    for j, m in enumerate(ms, 1):
        if j in skip:
            continue
        tn, fn = _tname(m["t"]), "f%d" % j
        f = m["f"]
        if f == "plain":
            lines.append("%s %s;" % (tn, fn))
        elif f == "opt":
            lines.append("%s* %s;" % (tn, fn))
        elif f == "fixed":
            lines.append("%s %s[%d];" % (tn, fn, m["n"]))
        elif f == "greedy":
            lines.append("%s %s<...>;" % (tn, fn))
        elif f == "ext":
            lines.append("%s %s<>;" % (tn, fn) if (j - 1) in skip else "%s %s<@f%d>;" % (tn, fn, m["c"]))
        elif f == "limx":
            if (j - 1) not in skip:
                return None
            lines.append("%s %s<%d>;" % (tn, fn, m["n"]))
    base = S.Env(FE_BASE).render()
    return base + "\nstruct X\n{\n%s};\n" % "".join("    %s\n" % l for l in lines)


def frontend_worker(cases, wid, extra):
    res = {"fails": [], "n": 0, "samples": [], "nontrivial": 0, "n_illegal_targets": 0, "n_text": 0, "n_enc": 0}
    base = tempfile.mkdtemp(prefix="vffe-", dir=extra.get("scratch"))
    try:
        for k, case in enumerate(cases):
            root = os.path.join(base, "c%d" % k)
            os.makedirs(root)
            xml, patch = fe_isar(case), fe_patch(case)
            with open(os.path.join(root, "x.xml"), "w") as f:
                f.write(xml)
            argv = [os.path.join(root, "x.xml"), "--isar", "--python_out", root]
            if patch:
                with open(os.path.join(root, "x.patch"), "w") as f:
                    f.write(patch)
                argv += ["--patch", os.path.join(root, "x.patch")]
            status, nodes, _ = CL.run_main(argv)
            res["n"] += 1
            if case["script"]:
                res["nontrivial"] += 1
            basef = {"check": "frontend", "isar": xml, "patch": patch, "expected_outcome": case["outcome"],
                     "expected_members": case["members"]}
            if case["outcome"] == "failed":
                if status == "ok":
                    res["fails"].append(dict(basef, what="a patch rule that cannot be applied did not fail the compilation"))
                elif status == "internal":
                    res["fails"].append(dict(basef, what="inapplicable patch rule ended in an internal exception: %s" % nodes))
                shutil.rmtree(root, ignore_errors=True)
                continue
            target = case["_target"]
            if not target["legal"]:
                res["n_illegal_targets"] += 1
                shutil.rmtree(root, ignore_errors=True)
                continue
            if status != "ok":
                res["fails"].append(dict(basef, what="prophyc --isar failed on an expressible schema: %s" % (nodes,)))
                shutil.rmtree(root, ignore_errors=True)
                continue
            x = [n for n in nodes["x"] if n.name == "X"][0]
            got = [(m.name, m.type_name, bool(m.optional), bool(m.greedy), m.bound, m.numeric_size if m.size else None)
                   for m in x.members]
            want = []
            retype = {r["a"]: r["b"] for r in case["script"] if r["op"] == "rename_type"}
            for m in case["members"]:
                f = m["f"]
                want.append((m["nm"], retype.get(_tname(m["t"]), _tname(m["t"])), f == "opt", f == "greedy", m["szr"] if f in ("ext", "limext") else None,
                             m["n"] if f in ("fixed", "limext") else None))
            if got != want:
                res["fails"].append(dict(basef, what="members after isar%s are %r; the specification gives %r"
                                         % ("+patch" if patch else "", got, want)))
                shutil.rmtree(root, ignore_errors=True)
                continue
            lay = target["lay"][-1]
            if (x.byte_size if lay["kind"] == 0 else None, x.alignment, x.kind) != (lay["size"] if lay["kind"] == 0 else None, lay["align"], lay["kind"]):
                res["fails"].append(dict(basef, what="layout from isar%s: size %r alignment %r kind %r; layout rules give %r"
                                         % ("+patch" if patch else "", x.byte_size, x.alignment, x.kind, lay)))
            # the same schema written in prophy text
            text = fe_prophy_text(target["defs"])
            mod_isar = None
            try:
                mod_isar = P.import_generated(root, "x")
            except P.CompileFailure as e:
                res["fails"].append(dict(basef, what="module generated from isar does not import: %s" % e))
            if text is not None:
                res["n_text"] += 1
                sub = os.path.join(root, "t")
                os.makedirs(sub)
                with open(os.path.join(sub, "x.prophy"), "w") as f:
                    f.write(text)
                st2, nodes2, _ = CL.run_main([os.path.join(sub, "x.prophy"), "--python_out", sub])
                if st2 != "ok":
                    res["fails"].append(dict(basef, what="the same schema in prophy text is rejected: %s" % (nodes2,), prophy=text))
                else:
                    x2 = [n for n in nodes2["x"] if n.name == "X"][0]
                    if (x2.byte_size, x2.alignment, x2.kind) != (x.byte_size, x.alignment, x.kind):
                        res["fails"].append(dict(basef, what="layouts differ: isar (%r, %r, %r), prophy text (%r, %r, %r)"
                                                 % (x.byte_size, x.alignment, x.kind, x2.byte_size, x2.alignment, x2.kind),
                                                 prophy=text))
            # encodings of the specification's vectors through the isar module
            if mod_isar is not None and target.get("vectors"):
                env = S.Env(target["defs"], names=["T1", "T2", "X"])
                env.member_names = {3: target["names"]}
                t = S.Ref(3)
                for vec in target["vectors"]:
                    res["n_enc"] += 1
                    value = S.walk_to_value(env, t, vec["walk"])
                    try:
                        msg = mod_isar.X()
                        P.fill(env, msg, t, value)
                        enc = msg.encode("<"), msg.encode(">")
                    except Exception as e:
                        res["fails"].append(dict(basef, what="isar-generated codec refused a value: %s" % P.exc_text(e), walk=vec["walk"]))
                        break
                    if enc != (bytes(vec["outL"]), bytes(vec["outB"])):
                        res["fails"].append(dict(basef, what="isar-generated codec encodes %s, canonical image %s"
                                                 % (enc[0].hex(), bytes(vec["outL"]).hex()), walk=vec["walk"]))
                        break
            if len(res["samples"]) < 1 and patch:
                res["samples"].append({"isar": xml, "patch": patch, "members": got})
            shutil.rmtree(root, ignore_errors=True)
    finally:
        shutil.rmtree(base, ignore_errors=True)
    return res


def enum_value_leg(forms):
    """isar enumerator values (decimal / hexadecimal, negative = unsigned two's
    complement) against spec/Frontends.tla EnumValueLimbs, through the model,
    the generated Python module and the prophy-text twin"""
    fails = []
    work = tempfile.mkdtemp(prefix="vfenum-", dir=scratch_dir("fe"))
    try:
        members, want = [], {}
        for k, f in enumerate(forms):
            text = ("-" if f["neg"] else "") + (("0x%X" % f["m"]) if f["base"] == "x" else str(f["m"]))
            name = "ZE_%d" % k
            members.append('<enum-member name="%s" value="%s"/>' % (name, text))
            want[name] = (f["limbs"][0] * 65536 + f["limbs"][1], text)
        # distinct values only (isar refuses duplicates)
        seen, keep = set(), []
        for mline, (name, (v, text)) in zip(members, want.items()):
            if v not in seen:
                seen.add(v)
                keep.append((mline, name, v, text))
        xml = '<x><enum name="ZE">%s</enum><struct name="ZS"><member name="e" type="ZE"/></struct></x>' % "".join(k[0] for k in keep)
        with open(os.path.join(work, "z.xml"), "w") as fh:
            fh.write(xml)
        status, nodes, _ = CL.run_main([os.path.join(work, "z.xml"), "--isar", "--python_out", work])
        base = {"check": "frontend", "isar": xml}
        if status != "ok":
            return [dict(base, what="prophyc --isar failed on an enum with decimal/hex/negative values: %s" % (nodes,))]
        enum = [n for n in nodes["z"] if n.name == "ZE"][0]
        got = {m.name: int(str(m.value), 0) for m in enum.members}
        try:
            mod = P.import_generated(work, "z")
        except P.CompileFailure as e:
            return [dict(base, what="module generated from an isar enum with negative values does not import: %s" % e)]
        for _, name, v, text in keep:
            if got.get(name) != v:
                fails.append(dict(base, what="isar enumerator value %r is %r in the model; it denotes %d" % (text, got.get(name), v)))
            elif getattr(mod, name) != v:
                fails.append(dict(base, what="isar enumerator value %r is %r in the generated module; it denotes %d"
                                  % (text, getattr(mod, name), v)))
        # the prophy-text twin encodes the same
        twin = "enum ZE { %s };\nstruct ZS { ZE e; };\n" % ", ".join("%s = 0x%X" % (name, v) for _, name, v, _ in keep)
        sub = os.path.join(work, "t")
        os.makedirs(sub)
        with open(os.path.join(sub, "z.prophy"), "w") as fh:
            fh.write(twin)
        st2, _, _ = CL.run_main([os.path.join(sub, "z.prophy"), "--python_out", sub])
        if st2 == "ok":
            mod2 = P.import_generated(sub, "z")
            for _, name, v, text in keep:
                a, b = mod.ZS(), mod2.ZS()
                a.e, b.e = name, name
                if a.encode("<") != b.encode("<") or a.encode(">") != b.encode(">"):
                    fails.append(dict(base, what="enumerator %r: isar codec encodes %s, prophy-text codec %s"
                                      % (text, a.encode("<").hex(), b.encode("<").hex())))
        else:
            fails.append(dict(base, what="the prophy-text twin of the enum is rejected"))
    finally:
        shutil.rmtree(work, ignore_errors=True)
    return fails


def c17(tier, replay):
    rep = Report("C17", tier)
    rep.assumptions = [
        "spec/Frontends.tla: isar member forms (plain, optional, size, size x size2, variable size with/without size, "
        "named and typed counter; struct vs message), the documented patch rules on named members and the target "
        "struct; TLC enumerates members x container x patch scripts and computes the target",
        "the target's legality and layout come from spec/Schema.tla + Layout.tla (TLC); illegal targets are counted and "
        "skipped; encodings use the vectors TLC generates for the target (spec/WireGiven.tla)",
        "modelled isar forms: plain, optional, size, size x size2, variable size (own counter, named/typed counter, with "
        "size in struct vs message), '@sizer', THIS_IS_VARIABLE_SIZE_ARRAY, optional + dimension (explicit has_ enabler)"]
    cases, enum_forms = [], []
    res = run_tlc("Frontends", {}, invariants=["AbsentIgnored", "FDump"], spec="FSpec", prefix=("FE", "FEENUM"),
                  on_line=lambda t, b: (enum_forms.extend(json.loads(b)) if t == "FEENUM" else cases.append(json.loads(b))))
    rep.add_tlc(res.stats)
    for f in enum_value_leg(enum_forms):
        rep.violation(f, shadows.match("C17", f))
    rep.cov["isar_enum_value_forms"] = len(enum_forms)
    rnd = random.Random(seed())
    n = 900 if tier == "quick" else len(cases)
    pick = rnd.sample(cases, min(n, len(cases)))
    if tier == "quick":
        # the rarer isar forms are always represented
        rare = [c for c in cases if any(m["dim"] in ("at", "this") or (m["opt"] and m["dim"] != "none") for m in c["ims"])]
        pick += [c for c in rnd.sample(rare, min(150, len(rare))) if c not in pick]
    # targets: legality + layout from the specification
    envs, names = [], []
    for c in pick:
        defs, nm = fe_target_env(c)
        envs.append(defs)
        names.append(nm)
    lays, st = wire.layout_of(envs)
    rep.add_tlc(st)
    legal_idx = [i for i, (c, l) in enumerate(zip(pick, lays)) if l["legal"] and c["outcome"] != "failed"]
    enc_idx = legal_idx[:120] if tier == "quick" else legal_idx[:2000]
    groups, st = wire.generate_given([envs[i] for i in enc_idx]) if enc_idx else ([], None)
    if st:
        rep.add_tlc(st)
    vec_by = {}
    for g in groups:
        vs_ = g["vectors"]
        vec_by[int(g["gid"].replace("given", "")) - 1] = vs_ if len(vs_) <= 12 else rnd.sample(vs_, 12)
    for i, c in enumerate(pick):
        c["_target"] = {"legal": lays[i]["legal"], "lay": lays[i]["lay"], "defs": envs[i], "names": names[i],
                        "vectors": None}
    for k, i in enumerate(enc_idx):
        pick[i]["_target"]["vectors"] = vec_by.get(k)
    jobs = _chunks(pick, NCPU)
    with ProcessPoolExecutor(max_workers=NCPU) as ex:
        results = list(ex.map(frontend_worker, jobs, range(len(jobs)), [{"scratch": scratch_dir("fe")}] * len(jobs)))
    nt = 0
    for r in results:
        rep.count(r["n"] + r["n_enc"])
        rep.validated(r["n"])
        nt += r["nontrivial"]
        for kk in ("n_illegal_targets", "n_text", "n_enc"):
            rep.cov[kk] = rep.cov.get(kk, 0) + r[kk]
        for s in r["samples"]:
            rep.sample(s)
        for f in r["fails"]:
            rep.violation(f, shadows.match("C17", f))
    for k in range(nt):
        rep.nontrivial(k)
    rep.cov["cases_enumerated"] = len(cases)
    rep.cov["rule"] = ("TLC enumerates isar descriptions x patch scripts and computes the target members; each sampled "
                       "case is compiled from isar(+patch) and, where expressible, from prophy text; non-trivial = cases "
                       "with a patch script")
    rep.cov["exhaustive"] = n >= len(cases)
    return rep.finish()


# ---------------------------------------------------------------------------
# --replay for the cases that are self-contained in their replay file
# ---------------------------------------------------------------------------
def replay(pid, case):
    """Re-run one recorded failing case (C12, C13) against the current /repo.
    Exit 1 iff it still fails; None = not self-contained, the caller re-runs
    the check with the recorded seed."""
    if pid == "C13" and "argv" in case and "files" in case:
        root = tempfile.mkdtemp(prefix="vfrep-", dir=scratch_dir("rep"))
        os.makedirs(os.path.join(root, "out"), exist_ok=True)
        for name, text in case["files"].items():
            os.makedirs(os.path.dirname(os.path.join(root, name)), exist_ok=True)
            with open(os.path.join(root, name), "w", encoding="utf-8", errors="surrogateescape") as f:
                f.write(text)
        argv = [a.replace("<dir>", root) for a in case["argv"]]
        watchdog_install(_on_alarm)
        watchdog_start(8)
        try:
            status, info, _ = CL.run_main(argv)
        except _Alarm:
            status, info = "timeout", "no answer within 8 s of CPU time"
        finally:
            watchdog_stop()
        exc = info.split(":", 1)[0] if status == "internal" else ""
        base = exc[exc.find("<") + 1:-1] if "<" in exc else exc
        bad = status == "timeout" or (status == "internal" and (exc in BANNED or base in BANNED))
        print("replay C13: %s %s" % (status, str(info)[:300]))
        if bad:
            print("VIOLATION property=C13 replay=(replayed case)")
        return 1 if bad else 0
    if pid == "C12" and "schema" in case and "label" in case:
        it = {"text": case["schema"], "label": case["label"], "rules": case.get("rules"), "cpp": True,
              "expect": "reject" if "breaks a documented rule" in case.get("what", "") or "rule breaker" in case.get("what", "")
              else "accept"}
        res = legality_worker([it], 0, {"scratch": scratch_dir("rep")})
        for f in res["fails"]:
            print("replay C12: %s" % f["what"][:300])
        if res["fails"]:
            print("VIOLATION property=C12 replay=(replayed case)")
        return 1 if res["fails"] else 0
    return None
