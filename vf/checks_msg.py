"""C10 C11: spec/Msg.tla state graph replayed into live Python messages."""
import json
import os
from concurrent.futures import ProcessPoolExecutor

from . import msgleg, shadows
from .common import Report, scratch_dir, seed, NCPU, MachineryError
from .tlcrun import run_tlc
from .wire import _write_given

MSG_PROPS = ["RejectedUnchanged", "Independent", "TDumpAction"]


def explore(tier):
    """TLC: exhaustive operations from the default state (+1 level in the
    thorough tier) and simulated behaviours.  Returns (schemas, edges by gid, stats)."""
    schemas = msgleg.curated()
    path = _write_given([{"env": e} for e in schemas])
    # transitions are kept as the raw JSON text TLC printed (parsed in the workers, one at a time): the parsed
    # form of the thorough tier's edges does not fit into memory
    edges = {i + 1: {"base": [], "sampled": []} for i in range(len(schemas))}
    stats = []
    import re
    import zlib
    gid_re = re.compile(r'"gid":(\d+)')

    def collect(tag, body, where="base"):
        edges[int(gid_re.search(body).group(1))][where].append(body)

    res = run_tlc("Msg", {"ExhaustiveLevels": 0, "MaxLevel": 1}, invariants=["AlwaysValid"], properties=MSG_PROPS, spec="MSpec",
                  prefix=("MTR",), constraint="LevelBound", env={"GIVEN_FILE": path}, on_line=collect)
    stats.append(res.stats)
    if tier != "quick":
        # every operation from every state one operation away from the default state: TLC checks the action
        # properties on all 2.6 million edges; one (state, operation) in twelve (by checksum) is replayed into the
        # real messages - with ALL the outcomes the model allows for it
        def collect_sampled(tag, body):
            if zlib.crc32(edge_key(body).encode()) % 12 == 0:
                collect(tag, body, "sampled")
        res = run_tlc("Msg", {"ExhaustiveLevels": 1, "MaxLevel": 1}, invariants=["AlwaysValid"], properties=MSG_PROPS,
                      spec="MSpec", prefix=("MTR",), constraint="LevelBound", env={"GIVEN_FILE": path},
                      on_line=collect_sampled)
        stats.append(res.stats)
    num, depth = (16, 5) if tier == "quick" else (600, 6)   # deeper walks double arrays (x.extend(x)) beyond what fits in memory
    res = run_tlc("Msg", {"ExhaustiveLevels": 99, "MaxLevel": 99}, invariants=["AlwaysValid"], properties=MSG_PROPS, spec="MSpec",
                  prefix=("MTR",), env={"GIVEN_FILE": path}, on_line=collect, simulate=num, depth=depth,
                  seed=seed(), workers=1)
    stats.append(res.stats)
    return schemas, edges, stats


def edge_key(body):
    """The (schema, pre-state, message, operation) part of a printed transition:
    TLC prints a record's fields in alphabetical order, so the allowed outcome
    ("out") and the new value ("v") are the tail of the line."""
    k = body.rfind(',"out":')
    if k < 0 or '"v":' not in body[k:]:
        raise MachineryError("unexpected field order in a transition line: %s" % body[:200])
    return body[:k]


C11_OPS = ("copy_from", "copy_from_wrong", "extendother", "extendself")


def is_c11(f):
    return "OTHER message" in f.get("what", "") or (f.get("op") or {}).get("op") in C11_OPS or \
        any(h["op"]["op"] in C11_OPS for h in (f.get("history") or [])[:-1])


def sizer_range_probe():
    """Arrays counted by a narrow sizer: "every reachable message can be
    encoded" - either growing the array beyond what the sizer can count is
    refused (ProphyError, message unchanged) or the message encodes.  The
    reference model's lengths are small; this is the long-array corner."""
    import shutil
    import tempfile
    import prophy
    from . import pyleg as P
    fails = []
    work = tempfile.mkdtemp(prefix="vfszr-", dir=scratch_dir("msg"))
    text = "struct A { u8 n; u16 x<@n>; };\nstruct B { i8 n; u8 x<@n>; };\nstruct C { u16 n; u8 x<@n>; bytes y<@n>; };\n"
    try:
        mod, _ = P.compile_python(text, work, "szr")
        for cls, limit, grow in ((mod.A, 255, "extend"), (mod.B, 127, "append"), (mod.C, 65535, "extend")):
            m = cls()
            refused = False
            try:
                if grow == "extend":
                    m.x.extend([1] * (limit + 1))
                else:
                    for _ in range(limit + 1):
                        m.x.append(1)
                if cls is mod.C:
                    m.y = b"z" * (limit + 1)
            except prophy.ProphyError:
                refused = True
            if refused:
                continue
            try:
                m.encode("<")
            except BaseException as e:  # noqa
                fails.append({"check": "sizer-range", "schema": text, "type": cls.__name__, "length": limit + 1,
                              "exception": type(e).__name__,
                              "what": "%s: an array of %d elements counted by a sizer that holds at most %d was accepted "
                                      "element by element, and the message then cannot be encoded: %s: %s"
                                      % (cls.__name__, limit + 1, limit, type(e).__name__, str(e)[:120])})
    finally:
        shutil.rmtree(work, ignore_errors=True)
    return fails


def _run(pid, tier):
    rep = Report(pid, tier)
    rep.assumptions = [
        "reference semantics = spec/Msg.tla (documented guards + Python list semantics); argument tokens are mapped to "
        "concrete Python objects by vf/msgleg.py (max/min of the field's type, str, float, None, bytes, bool excluded)",
        "eleven curated schemas covering every field kind; where the documents are silent the model allows both outcomes "
        "(re-enabling a present optional composite; bad value AND bad index; extended slice of another size)",
        "states of the reference model are rebuilt through the public API for the per-edge leg; the history leg keeps "
        "one live pair of messages per walk"]
    schemas, edges, stats = explore(tier)
    for st in stats:
        rep.add_tlc(st)
    if pid == "C10":
        for f in sizer_range_probe():
            rep.violation(f, shadows.match(pid, f))
    n_walks, walk_len = (150, 6) if tier == "quick" else (2000, 7)
    jobs = []
    import zlib
    for gid, defs in enumerate(schemas, 1):
        base, sampled = edges[gid]["base"], edges[gid]["sampled"]
        if not base:
            raise MachineryError("TLC produced no transitions for schema %d" % gid)
        # job 0 of a schema: the level-0 and simulated edges (replayed, and the graph of the history walks);
        # further jobs: the sampled deeper edges, split so that all outcomes of one (state, operation) stay together
        jobs.append((gid, defs, base, n_walks, walk_len, seed() * 100 + gid, {"scratch": scratch_dir("msg")}))
        parts = max(1, min(6, len(sampled) // 3000)) if sampled else 0
        for k in range(parts):
            mine = [x for x in sampled if zlib.crc32(edge_key(x).encode()) // 12 % parts == k]
            jobs.append((gid, defs, mine, 0, walk_len, seed() * 100 + gid, {"scratch": scratch_dir("msg")}))
    jobs.sort(key=lambda j: -sum(len(x) for x in j[2]))
    with ProcessPoolExecutor(max_workers=min(NCPU, len(jobs))) as ex:
        results = list(ex.map(msgleg.worker, *zip(*jobs)))
    n_nontrivial = 0
    for r in results:
        rep.count(r["n_edges"] + r["n_walk_steps"])
        rep.validated(r["n_edges"] + r["n_walks"])
        n_nontrivial += r["nontrivial"]
        for s in r["samples"]:
            rep.sample(s)
        for f in r["fails"]:
            mine = is_c11(f) if pid == "C11" else not is_c11(f)
            if mine:
                rep.violation(f, shadows.match(pid, f))
            else:
                rep.cov["other_property_fails"] = rep.cov.get("other_property_fails", 0) + 1
        rep.cov["edges_replayed"] = rep.cov.get("edges_replayed", 0) + r["n_edges"]
        rep.cov["walks"] = rep.cov.get("walks", 0) + r["n_walks"]
        rep.cov["aliasing_probes"] = rep.cov.get("aliasing_probes", 0) + r.get("n_probes", 0)
        rep.cov["walk_steps"] = rep.cov.get("walk_steps", 0) + r["n_walk_steps"]
    for k in range(max(2, n_nontrivial)):
        rep.nontrivial(k) if k < n_nontrivial else None
    rep.cov["rule"] = ("TLC explores spec/Msg.tla: every operation (all argument tokens, indices, slices) from the "
                       "default state exhaustively, plus simulated behaviours; every generated edge (state, operation) "
                       "is executed on freshly built messages, and random walks through the explored graph are "
                       "executed on one live pair of messages; non-trivial = walks of >= 3 operations")
    rep.cov["schemas"] = len(schemas)
    return rep.finish()


def c10(tier, replay):
    return _run("C10", tier)


def c11(tier, replay):
    return _run("C11", tier)
