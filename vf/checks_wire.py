"""C01 C02 C04 C19: specification vectors replayed into the Python codec."""
import json

from . import wire, pywire, shadows
from .common import Report, scratch_dir


def _run(pid, tier, checks, replay, assumptions, rule):
    rep = Report(pid, tier)
    rep.assumptions = assumptions
    vs = wire.generate(tier)
    for st in vs.stats:
        rep.add_tlc(st)
    groups = wire.group_vectors(vs)
    results = wire.run_batches(pywire.worker, groups, vs, {"checks": checks, "scratch": scratch_dir("py")})
    nontrivial = set()
    for r in results:
        if "crash" in r:
            rep.violation({"what": "worker crashed or hung: %s" % r["crash"], "groups": r["groups"]})
            continue
        rep.count(r["n_vec"])
        rep.validated(r["n_vec"])
        for s in r["samples"]:
            rep.sample(s)
        for gid in r["nontrivial"]:
            rep.nontrivial(gid)
        for f in r["fails"]:
            rep.violation(f, shadows.match(pid, f))
    rep.cov["rule"] = rule
    rep.cov["schemas"] = len(groups)
    rep.cov["exhaustive"] = True
    return rep.finish()


ASSUME_COMMON = [
    "the renderer env -> prophy text and the walk <-> API-call conversion (vf/schema.py, vf/pyleg.py) are correct",
    "expected bytes, roles and layout numbers come from spec/Wire.tla + Layout.tla evaluated by TLC",
    "scalar payloads are fixed distinct non-zero byte patterns (no NaN patterns); structure is fully branched",
]
RULE = ("TLC enumerates every schema over the curated inner environment up to the member bound and every "
        "structural value (array lengths, optional presence, union arm, enumerator) for it, plus seeded "
        "-simulate behaviours with deeper schemas; a schema is non-trivial when its encoding has padding "
        "or more than one structural choice; distinct = distinct schemas")


def c01(tier, replay):
    return _run("C01", tier, ["enc"], replay, ASSUME_COMMON, RULE)


def c02(tier, replay):
    guard = wire.vacuity_guard()
    return _run("C02", tier, ["dec"], replay, ASSUME_COMMON + [
        "round trip claimed only for vectors with GreedyTailAligned (spec operator)"], RULE)


def c04(tier, replay):
    return _run("C04", tier, ["layout"], replay, ASSUME_COMMON, RULE)


def c19(tier, replay):
    return _run("C19", tier, ["mirror"], replay, ASSUME_COMMON, RULE)


def c06(tier, replay):
    rep = Report("C06", tier)
    rep.assumptions = ASSUME_COMMON + [
        "fault space = every truncation, 1-byte extensions, every control-word corruption from a fixed value set "
        "(spec/WireDec.tla Faulted) of every canonical image; per-call watchdog 5 s; memory budget 64*len+1MiB "
        "measured with tracemalloc",
        "the reference decoder's verdict is recorded as information only - the property does not oblige the codec "
        "to reject anything in particular"]
    vs = wire.generate_faults(tier)
    for st in vs.stats:
        rep.add_tlc(st)
    groups = wire.group_vectors(vs)
    results = wire.run_batches(pywire.fault_worker, groups, vs, {"scratch": scratch_dir("py")})
    outcomes = {}
    for r in results:
        if "crash" in r:
            rep.violation({"what": "worker crashed or hung: %s" % r["crash"], "groups": r["groups"]})
            continue
        rep.count(r["n_vec"])
        rep.validated(r["n_vec"])
        for s in r["samples"]:
            rep.sample(s)
        for k in r["nontrivial"]:
            rep.nontrivial(k)
        for k, n in r["outcomes"].items():
            outcomes[k] = outcomes.get(k, 0) + n
        for f in r["fails"]:
            rep.violation(f, shadows.match("C06", f))
    rep.cov["outcomes (fault/python/spec-decoder)"] = outcomes
    rep.cov["rule"] = ("TLC enumerates, for every enumerated (schema, value), every faulted image of its canonical "
                       "encoding; each is decoded by the real codec; non-trivial = a faulted (not canonical) input; "
                       "distinct = distinct (schema, input bytes)")
    rep.cov["schemas"] = len(groups)
    rep.cov["exhaustive"] = True
    return rep.finish()
