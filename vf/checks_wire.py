"""C01 C02 C04 C19: specification vectors replayed into the Python codec."""
import json

from . import wire, pywire, cppwire, rawwire, pytrace, shadows
from .common import Report, scratch_dir


def py_leg(rep, vs, checks, worker=None):
    """Replay the vector set into the Python codec; fold results into rep."""
    pid = rep.pid
    groups = wire.group_vectors(vs)
    results = wire.run_batches(worker or pywire.worker, groups, vs, {"checks": checks, "scratch": scratch_dir("py")})
    for r in results:
        if "crash" in r:
            rep.violation({"what": "worker crashed or hung: %s" % r["crash"], "groups": r["groups"]})
            continue
        rep.count(r["n_vec"])
        rep.validated(r["n_vec"])
        for s in r["samples"]:
            rep.sample(s)
        for gid in r["nontrivial"]:
            rep.nontrivial("py:%s" % gid)
        for f in r["fails"]:
            rep.violation(f, shadows.match(pid, f))
        for k, n in r.get("n_checked", {}).items():
            rep.cov["py_checked_" + k] = rep.cov.get("py_checked_" + k, 0) + n
    rep.cov["py_schemas"] = len(groups)
    return groups


def _run(pid, tier, checks, replay, assumptions, rule, extra_leg=None):
    rep = Report(pid, tier)
    rep.assumptions = assumptions
    for leg in (extra_leg if isinstance(extra_leg, (list, tuple)) else [extra_leg] if extra_leg else []):
        leg(rep, tier, pid)
    vs = wire.generate(tier)
    for st in vs.stats:
        rep.add_tlc(st)
    py_leg(rep, vs, checks)
    rep.cov["rule"] = rule
    rep.cov["exhaustive"] = True
    return rep.finish()


ASSUME_COMMON = [
    "the renderer env -> prophy text and the walk <-> API-call conversion (vf/schema.py, vf/pyleg.py) are correct",
    "expected bytes, roles and layout numbers come from spec/Wire.tla + Layout.tla evaluated by TLC",
    "scalar payloads are fixed distinct non-zero byte patterns (no NaN patterns); structure is fully branched",
]
RULE = ("TLC enumerates every schema over the curated inner environment up to the member bound and every "
        "structural value (array lengths, optional presence, union arm, enumerator) for it, plus seeded "
        "-simulate behaviours with deeper schemas; a schema is non-trivial when its encoding has padding "
        "or more than one structural choice; distinct = distinct schemas")


def _trace_leg(rep, tier, pid):
    """code -> spec: recorded Python encodings of random schemas/values are
    validated by TLC against the specification (spec/WireGiven.tla TSpec)."""
    from concurrent.futures import ProcessPoolExecutor
    from .common import NCPU, seed
    n_workers = NCPU
    per = (8, 4) if tier == "quick" else (120, 8)
    jobs = [(seed() * 1000 + w, per[0], per[1], {"scratch": scratch_dir("tr")}) for w in range(n_workers)]
    items, meta = [], []
    with ProcessPoolExecutor(max_workers=NCPU) as ex:
        for r in ex.map(pytrace.record_worker, *zip(*jobs)):
            items += r["items"]
            meta += r["meta"]
            for f in r["fails"]:
                if pid != "C19":
                    rep.violation(f, shadows.match(pid, f))
    verdicts, illegal, stats = wire.validate_traces(items)
    rep.add_tlc(stats)
    if illegal:
        raise wire.MachineryError("generator produced %d environments the specification calls illegal" % len(illegal))
    n_ok = 0
    for it, m, v in zip(items, meta, verdicts):
        if v is None and pid == "C19":
            continue
        if v is None:
            rep.violation({"check": "enc", "what": "recorded walk is not a behaviour of the specification",
                           "schema": m["schema"], "walk": it["walk"], "defs": it["env"]})
        elif pid == "C19" and bool(v["dL"]) == bool(v["dB"]):
            # both orders deviate in the same way (C01's business) or neither does
            n_ok += 0 if v["dL"] else 1
        elif v["dL"] or v["dB"]:
            rep.violation({"check": "enc", "what": "trace rejected: recorded %s image differs from the specification "
                           "at offset %d (little %s / big %s)" % ("little-endian" if v["dL"] else "big-endian",
                                                                  (v["dL"] or v["dB"]) - 1, bytes(it["obsL"]).hex(),
                                                                  bytes(it["obsB"]).hex()),
                           "schema": m["schema"], "walk": it["walk"], "defs": it["env"]})
        else:
            n_ok += 1
    rep.validated(len(items))
    rep.count(len(items))
    rep.cov["recorded_traces"] = len(items)
    rep.cov["recorded_traces_accepted"] = n_ok
    if items:
        rep.sample({"recorded_trace": {"schema": meta[0]["schema"], "walk": [[e["e"], e["n"], e["v"]] for e in items[0]["walk"]],
                                       "little": bytes(items[0]["obsL"]).hex()}}, limit=4)


def _decode_trace_leg(rep, tier, pid):
    """code -> spec for DECODE: random schemas, canonical and arbitrarily
    mutated inputs decoded by the real Python codec; TLC runs the reference
    decoder (spec/WireDecGiven.tla) on every recorded input and then the
    encoder specification (WireGiven!TSpec) on the walks involved.  What is
    judged depends on the property:
      C02  an input that is the canonical image of a value (reference decoder
           accepts it and the specification encodes the decoded walk to the
           very same bytes, greedy tail aligned) must decode, to that value,
           consuming everything, and re-encode to the same bytes;
      C06  every decode terminates, raises only ProphyError, stays in its
           memory budget; a returned message encodes and is a fixpoint;
      C01  the re-encoding of every message produced by decode equals the
           specification's encoding of the value read back from it."""
    from concurrent.futures import ProcessPoolExecutor
    from .common import NCPU, seed
    from . import schema as S
    per = ((3, 2, 5) if pid == "C01" else (4, 3, 6)) if tier == "quick" else (12, 4, 10)
    jobs = [(seed() * 1000 + 500 + w, per[0], per[1], per[2], {"scratch": scratch_dir("dr")}) for w in range(NCPU)]
    recs = []
    with ProcessPoolExecutor(max_workers=NCPU) as ex:
        for r in ex.map(pytrace.decode_worker, *zip(*jobs)):
            recs += r["records"]
            for f in r["fails"]:
                rep.violation(f, shadows.match(pid, f))
    if not recs:
        raise wire.MachineryError("decode trace leg recorded nothing")
    dverd, st = wire.decide_decodes(recs)
    rep.add_tlc(st)
    # encoder specification on: the reference decoder's walk (is the input
    # canonical?) and the walk read back from the real message (is the
    # re-encoding right? does the greedy tail end aligned?)
    titems, tref = [], []
    for i, (r, d) in enumerate(zip(recs, dverd)):
        if d["verdict"] == "accept":
            titems.append({"env": r["env"], "walk": d["dwalk"], "obsL": r["inp"] if r["ord"] == "L" else [],
                           "obsB": r["inp"] if r["ord"] == "B" else []})
            tref.append(("canon", i))
        if r["walk"] is not None:
            titems.append({"env": r["env"], "walk": r["walk"], "obsL": r["reenc"] if r["ord"] == "L" else [],
                           "obsB": r["reenc"] if r["ord"] == "B" else []})
            tref.append(("real", i))
    tverd, illegal, st2 = wire.validate_traces(titems)
    rep.add_tlc(st2)
    canon, real = {}, {}
    for (what, i), v in zip(tref, tverd):
        (canon if what == "canon" else real)[i] = v
    outcomes = {}
    n_canon = 0
    for i, (r, d) in enumerate(zip(recs, dverd)):
        env = S.Env(r["env"], names=r["names"])
        o = r["ord"]
        data = bytes(r["inp"])
        key = "%s/%s/spec-%s" % (r["kind"], r["outcome"], d["verdict"])
        outcomes[key] = outcomes.get(key, 0) + 1
        base = {"schema": env.render(), "defs": r["env"], "order": o, "inp": data.hex(), "mutation": r["kind"],
                "spec_decoder": (d["verdict"] + " " + d["reason"]).strip()}
        cv = canon.get(i)
        diff = None if cv is None else (cv["dL"] if o == "L" else cv["dB"])
        is_canon = cv is not None and diff == 0 and (d["kind"] != 2 or cv["gta"]) and not _has_snan32(r["env"], d["dwalk"])
        if is_canon:
            n_canon += 1
        if r["kind"] != "canon":
            rep.nontrivial("dec:%d:%s" % (hash(json.dumps(r["env"], sort_keys=True)), data.hex()))
        if pid == "C02" and is_canon:
            what = None
            if r["outcome"] != "return":
                what = "decode(%s, %s) of a canonical image failed: %s %s" % (data.hex(), o, r["outcome"], r["exc"])
            elif r["consumed"] != len(data):
                what = "decode(%s, %s) reports %r consumed bytes of %d" % (data.hex(), o, r["consumed"], len(data))
            elif r["walk"] != d["dwalk"]:
                what = "decode(%s, %s) yields %r, the specification's decoder %r" % (
                    data.hex(), o, _wl(r["walk"]), _wl(d["dwalk"]))
            elif r["reenc"] != r["inp"]:
                what = "decode(%s, %s) re-encodes to %s" % (data.hex(), o, bytes(r["reenc"]).hex())
            if what:
                f = dict(base, check="dec", what=what, walk=d["dwalk"])
                rep.violation(f, shadows.match(pid, f))
        if pid == "C06":
            what = None
            if r["outcome"] == "other":
                what = "decode(%s, %s) raised %s (not ProphyError)" % (data.hex(), o, r["exc"])
            elif r["outcome"] == "timeout":
                what = "decode(%s, %s) did not terminate within 5 s of CPU time" % (data.hex(), o)
            elif r["peak"] > 64 * len(data) + (1 << 20):
                what = "decode(%s, %s) allocated %d bytes for %d input bytes" % (data.hex()[:80], o, r["peak"], len(data))
            elif r["fix"]:
                rv = real.get(i)
                # an unlimited root whose decoded greedy tail does not end
                # aligned owes no fixpoint (the specification decides)
                owed = not (d["kind"] == 2 and rv is not None and not rv["gta"])
                if owed:
                    what = "decode(%s, %s) returned; %s" % (data.hex(), o, r["fix"])
                else:
                    outcomes["greedy-tail-unaligned (fixpoint not owed)"] = \
                        outcomes.get("greedy-tail-unaligned (fixpoint not owed)", 0) + 1
            if what:
                f = dict(base, check="total", what=what, walk=r["walk"] or [])
                rep.violation(f, shadows.match(pid, f))
        if pid == "C01" and r["walk"] is not None:
            rv = real.get(i)
            rd = None if rv is None else (rv["dL"] if o == "L" else rv["dB"])
            if rv is not None and rd:
                f = dict(base, check="enc", walk=r["walk"],
                         what="message produced by decode(%s, %s) encodes to %s; the specification encodes the value "
                              "read back from it to %s (first difference at offset %d)"
                              % (data.hex(), o, bytes(r["reenc"]).hex(),
                                 bytes(rv["outL"] if o == "L" else rv["outB"]).hex(), rd - 1))
                rep.violation(f, shadows.match(pid, f))
    rep.count(len(recs))
    rep.validated(len(recs))
    rep.cov["recorded_decodes"] = len(recs)
    rep.cov["recorded_decodes_canonical_inputs"] = n_canon
    rep.cov["recorded_decode_outcomes (mutation/python/spec-decoder)"] = outcomes
    ex = next((r for r, d in zip(recs, dverd) if r["kind"] not in ("canon",) and d["verdict"] == "reject"), None)
    if ex:
        rep.sample({"recorded_decode": {"schema": S.Env(ex["env"], names=ex["names"]).render(), "order": ex["ord"],
                                        "input": bytes(ex["inp"]).hex(), "mutation": ex["kind"],
                                        "python": ex["outcome"]}}, limit=4)


def _has_snan32(env_defs, walk):
    """a 4-byte item with the bit pattern of a SIGNALLING float NaN, in a schema
    that has 32-bit floats: Python floats are doubles, and converting such a value
    to double and back sets the quiet bit - no codec written in Python can return
    those four bytes unchanged, so the input is not taken as a round-trip instance"""
    if '"k": "flt", "w": 4' not in json.dumps(env_defs):
        return False
    for e in walk:
        v = e["v"]
        if e["e"] == "int" and len(v) == 4 and (v[3] & 0x7f) == 0x7f and (v[2] & 0x80) and not (v[2] & 0x40) \
                and ((v[2] & 0x3f) or v[1] or v[0]):
            return True
    return False


def _wl(walk):
    return [[e["e"], e["n"], list(e["v"])] for e in walk]


def c01(tier, replay):
    return _run("C01", tier, ["enc"], replay, ASSUME_COMMON, RULE, extra_leg=[_trace_leg, _decode_trace_leg])


def _large_array_probe(rep):
    """C02 is claimed for every value; the specification's arrays are short.
    One fixed scenario at the Python decoder's element guard (65536)."""
    import shutil
    import tempfile
    from . import pyleg as P
    work = tempfile.mkdtemp(prefix="vfbig-", dir=scratch_dir("py"))
    try:
        mod, _ = P.compile_python("struct L { u8 x<>; u8 t; };\n", work, "big")
        for n in (65536, 65537):
            m = mod.L()
            m.x[:] = [n % 251] * n
            m.t = 7
            for order in ("<", ">"):
                data = m.encode(order)
                try:
                    d = mod.L()
                    used = d.decode(data, order)
                    ok = used == len(data) and len(d.x) == n and d.t == 7 and d.encode(order) == data
                    err = "decoded value differs"
                except Exception as e:
                    ok, err = False, P.exc_text(e)
                rep.count(1)
                if not ok:
                    f = {"check": "dec", "large_array": n, "what": "struct L { u8 x<>; u8 t; } with %d elements encodes to %d "
                         "bytes, which decode(%r) does not give back: %s" % (n, len(data), order, err)}
                    rep.violation(f, shadows.match("C02", f))
    finally:
        shutil.rmtree(work, ignore_errors=True)


def _long_array_probe(rep, pid):
    """The specification's arrays are short; codecs may treat long arrays in
    bulk.  Arrays of every multi-byte scalar with 63..1000 elements are encoded
    and decoded in '<', '>' and '<' again IN ONE PROCESS: decode gives the
    value back, consumes everything and is a fixpoint of re-encoding, in every
    order of the calls."""
    import shutil
    import tempfile
    from . import pyleg as P
    work = tempfile.mkdtemp(prefix="vflong-", dir=scratch_dir("py"))
    text = ("struct A { u16 a<>; i32 b<>; u64 c<>; float d<>; double e<>; i16 f<>; };\n"
            "struct B { u32 n; i64 g<@n>; u16 h<@n>; };\n")
    try:
        mod, _ = P.compile_python(text, work, "longarr")
        for n in (63, 64, 65, 200, 1000):
            a = mod.A()
            a.a[:] = [(i * 259 + 1) % 65536 for i in range(n)]
            a.b[:] = [(i * 65539 + 3) % (2 ** 31) - (i % 2) * 7 for i in range(n)]
            a.c[:] = [(i * 4294967311 + 5) % (2 ** 64) for i in range(n)]
            a.d[:] = [float(i) + 0.5 for i in range(n)]
            a.e[:] = [float(i) * 1.25 - 3 for i in range(n)]
            a.f[:] = [(i * 263) % 32768 - (i % 3) * 100 for i in range(n)]
            b = mod.B()
            b.g[:] = [(i * 4294967311 + 5) % (2 ** 63) - i for i in range(n)]
            b.h[:] = [(i * 259 + 1) % 65536 for i in range(n)]
            for cls, m, fields in ((mod.A, a, "abcdef"), (mod.B, b, "gh")):
                for order in ("<", ">", "<", ">"):
                    data = m.encode(order)
                    try:
                        d = cls()
                        used = d.decode(data, order)
                        bad = [fl for fl in fields if list(getattr(d, fl)) != list(getattr(m, fl))]
                        ok = used == len(data) and not bad and d.encode(order) == data
                        err = "decoded value differs in %s" % bad if bad else "consumed %r of %d / re-encoding differs" % (used, len(data))
                    except Exception as e:
                        ok, err = False, P.exc_text(e)
                    rep.count(1)
                    if not ok:
                        f = {"check": "dec", "long_array": n, "what": "%s with %d elements per array: decode(encode(v, %r), %r) "
                             "is not v (calls in one process: '<', '>', '<', '>'): %s" % (cls.__name__, n, order, order, err),
                             "schema": text}
                        rep.violation(f, shadows.match(pid, f))
    finally:
        shutil.rmtree(work, ignore_errors=True)


def c02(tier, replay):
    guard = wire.vacuity_guard()
    return _run("C02", tier, ["dec"], replay, ASSUME_COMMON + [
        "round trip claimed only for vectors with GreedyTailAligned (spec operator)"], RULE,
        extra_leg=[_decode_trace_leg, lambda rep, tier, pid: _large_array_probe(rep),
                   lambda rep, tier, pid: _long_array_probe(rep, pid)])


def py_random_leg(rep, checks, tier, groups):
    """vectors / layouts of randomly drawn deeper schemas replayed into the Python side"""
    from . import randwire
    pid = rep.pid
    results = wire.run_batches(pywire.worker, groups, randwire._VS(), {"checks": checks, "scratch": scratch_dir("py")})
    for r in results:
        if "crash" in r:
            rep.violation({"what": "worker crashed or hung: %s" % r["crash"], "groups": r["groups"]})
            continue
        rep.count(r["n_vec"])
        rep.validated(r["n_vec"])
        for gid in r["nontrivial"]:
            rep.nontrivial("pyr:%s" % gid)
        for f in r["fails"]:
            rep.violation(f, shadows.match(pid, f))
        for k, n in r.get("n_checked", {}).items():
            rep.cov["py_random_checked_" + k] = rep.cov.get("py_random_checked_" + k, 0) + n
    rep.cov["py_random_schemas"] = len(groups)


def _both(pid, tier, py_checks, cpp_checks, assumptions, rule, layouts=False, extra_leg=None):
    rep = Report(pid, tier)
    rep.assumptions = assumptions
    if extra_leg:
        extra_leg(rep, tier, pid)
    if layouts:
        from . import randwire
        rgroups, rstats = randwire.raw_groups(tier, 89)
        for st in rstats:
            rep.add_tlc(st)
        py_random_leg(rep, py_checks, tier, rgroups)
        cpp_random_leg(rep, cpp_checks, tier, False, groups=rgroups)
    vs = wire.generate_layouts(tier) if layouts else wire.generate(tier)
    for st in vs.stats:
        rep.add_tlc(st)
    py_leg(rep, vs, py_checks)
    cpp_leg(rep, vs, cpp_checks, tier)
    rep.cov["rule"] = rule
    rep.cov["exhaustive"] = rep.cov["cpp_schemas"] == rep.cov["cpp_schemas_available"]
    return rep.finish()


def c04(tier, replay):
    return _both("C04", tier, ["layout"], ["ebs"], ASSUME_CPP, RULE_CPP + "; arrays are left empty (layout only)",
                 layouts=True)


def c19(tier, replay):
    return _both("C19", tier, ["mirror"], ["mirror"], ASSUME_CPP + [
        "recorded encodings of randomly drawn schemas and values (incl. NaN, infinities, -0.0) are validated by TLC in both "
        "byte orders; here only traces in which exactly one order deviates are reported"], RULE_CPP, extra_leg=_trace_leg)


def c06(tier, replay):
    rep = Report("C06", tier)
    rep.assumptions = ASSUME_COMMON + [
        "fault space = every truncation, 1-byte extensions, every control-word corruption from a fixed value set "
        "(spec/WireDec.tla Faulted) of every canonical image; per-call watchdog 5 s; memory budget 64*len+1MiB "
        "measured with tracemalloc",
        "the reference decoder's verdict is recorded as information only - the property does not oblige the codec "
        "to reject anything in particular"]
    _decode_trace_leg(rep, tier, "C06")
    _long_array_probe(rep, "C06")
    vs = wire.generate_faults(tier)
    for st in vs.stats:
        rep.add_tlc(st)
    groups = wire.group_vectors(vs)
    results = wire.run_batches(pywire.fault_worker, groups, vs, {"scratch": scratch_dir("py")})
    outcomes = {}
    pending = []
    for r in results:
        if "crash" in r:
            rep.violation({"what": "worker crashed or hung: %s" % r["crash"], "groups": r["groups"]})
            continue
        rep.count(r["n_vec"])
        rep.validated(r["n_vec"])
        for s in r["samples"]:
            rep.sample(s)
        for k in r["nontrivial"]:
            rep.nontrivial(k)
        for k, n in r["outcomes"].items():
            outcomes[k] = outcomes.get(k, 0) + n
        for f in r["fails"]:
            rep.violation(f, shadows.match("C06", f))
        pending += r.get("pending", [])
    if pending:
        # unlimited roots whose decode/encode/decode was not a fixpoint: TLC
        # encodes the decoded walk; the fixpoint is owed only if the
        # specification says the greedy tail ends aligned
        verdicts, illegal, st = wire.validate_traces([p["item"] for p in pending])
        rep.add_tlc(st)
        for p, v in zip(pending, verdicts):
            if v is None:
                rep.violation(dict(p["fail"], what="decoded message is not a value of the schema: " + p["fail"]["what"]))
            elif (v["dL"] if p["order"] == "<" else v["dB"]):
                rep.violation(dict(p["fail"], what="re-encoding of the decoded message differs from the "
                                                   "specification; " + p["fail"]["what"]))
            elif v["gta"]:
                rep.violation(p["fail"], shadows.match("C06", p["fail"]))
            else:
                outcomes["greedy-tail-unaligned (fixpoint not owed)"] = \
                    outcomes.get("greedy-tail-unaligned (fixpoint not owed)", 0) + 1
    rep.cov["outcomes (fault/python/spec-decoder)"] = outcomes
    rep.cov["rule"] = ("TLC enumerates, for every enumerated (schema, value), every faulted image of its canonical "
                       "encoding; each is decoded by the real codec; non-trivial = a faulted (not canonical) input; "
                       "distinct = distinct (schema, input bytes)")
    rep.cov["schemas"] = len(groups)
    rep.cov["exhaustive"] = True
    return rep.finish()


# ---------------------------------------------------------------------------
# C++ full codec legs
# ---------------------------------------------------------------------------
def _select_cpp(groups, tier, cap_quick=450, cap_thorough=5000):
    """C++ compile time bounds the number of schemas (about 10 ms each)."""
    import random
    cap = cap_quick if tier == "quick" else cap_thorough
    if len(groups) <= cap:
        return groups
    rnd = random.Random(wire.seed())
    pinned = [g for g in groups if g.get("pinned")]
    return pinned + rnd.sample([g for g in groups if not g.get("pinned")], cap)


def cpp_leg(rep, vs, checks, tier, nbatch=12):
    """Replay the vector set into the generated C++ full codec."""
    pid = rep.pid
    all_groups = wire.group_vectors(vs)
    groups = _select_cpp(all_groups, tier)
    results = wire.run_batches(cppwire.worker, groups, vs, {"checks": checks, "scratch": scratch_dir("cpp")},
                               nbatch=nbatch, timeout=3000)
    outcomes = {}
    for r in results:
        if "crash" in r:
            rep.violation({"what": "worker crashed or hung: %s" % r["crash"], "groups": r["groups"]})
            continue
        rep.count(r["n_cases"])
        rep.validated(r["n_cases"])
        for s in r["samples"]:
            rep.sample(s)
        for gid in r["nontrivial"]:
            rep.nontrivial("cpp:%s" % gid)
        for k, n in r.get("outcomes", {}).items():
            outcomes[k] = outcomes.get(k, 0) + n
        for f in r["fails"]:
            rep.violation(f, shadows.match(pid, f))
        for k, n in r.get("n_checked", {}).items():
            rep.cov["cpp_checked_" + k] = rep.cov.get("cpp_checked_" + k, 0) + n
        rep.cov["skipped_not_cpp_full"] = rep.cov.get("skipped_not_cpp_full", 0) + r["skipped_groups"]
    if outcomes:
        rep.cov["outcomes (fault/cpp/spec-decoder)"] = outcomes
    rep.cov["cpp_schemas"] = len(groups)
    rep.cov["cpp_schemas_available"] = len(all_groups)
    return groups


def cpp_random_leg(rep, checks, tier, faults, groups=None):
    """Random schemas (vf/gen.py): canonical images computed by TLC from the
    encoder specification and, for `faults`, arbitrary mutations judged by the
    reference decoder - replayed into the generated C++ codec."""
    from . import randwire
    pid = rep.pid
    if groups is not None:
        stats = []
    elif faults:
        groups, stats = randwire.fault_groups(tier, 31)
    else:
        _, groups, stats = randwire.canonical_groups(tier, 17)
    for st in stats:
        rep.add_tlc(st)
    results = wire.run_batches(cppwire.worker, groups, randwire._VS(), {"checks": checks, "scratch": scratch_dir("cpp")},
                               nbatch=16, timeout=3000)
    outcomes = {}
    for r in results:
        if "crash" in r:
            rep.violation({"what": "worker crashed or hung: %s" % r["crash"], "groups": r["groups"]})
            continue
        rep.count(r["n_cases"])
        rep.validated(r["n_cases"])
        for gid in r["nontrivial"]:
            rep.nontrivial("cpp:%s" % gid)
        for k, n in r.get("outcomes", {}).items():
            outcomes[k] = outcomes.get(k, 0) + n
        for f in r["fails"]:
            rep.violation(f, shadows.match(pid, f))
        for k, n in r.get("n_checked", {}).items():
            rep.cov["cpp_random_checked_" + k] = rep.cov.get("cpp_random_checked_" + k, 0) + n
        for dis in r.get("disagreements", []):
            lst = rep.cov.setdefault("random schemas: sample verdict disagreements (information)", [])
            if sum(1 for x in lst if x["cpp"] == dis["cpp"]) < 3:
                lst.append(dis)
    if outcomes:
        rep.cov["random schemas: outcomes (mutation/cpp/spec-decoder)"] = outcomes
    rep.cov["cpp_random_schemas"] = len(groups)


def _run_cpp(pid, tier, checks, assumptions, rule, vs=None, nbatch=12, random_leg=None):
    rep = Report(pid, tier)
    rep.assumptions = assumptions
    if random_leg is not None:
        cpp_random_leg(rep, checks, tier, random_leg == "faults")
    vs = vs or wire.generate(tier, light=True)
    wire.add_reproducers(vs, pid)
    for st in vs.stats:
        rep.add_tlc(st)
    cpp_leg(rep, vs, checks, tier, nbatch)
    rep.cov["rule"] = rule
    rep.cov["exhaustive"] = rep.cov["cpp_schemas"] == rep.cov["cpp_schemas_available"]
    return rep.finish()


ASSUME_CPP = ASSUME_COMMON + [
    "generated C++ built with clang++-14 -std=c++11 -O1 -fsanitize=address,undefined against /repo/prophy_cpp/include; "
    "x86-64 little-endian host; decode input and encode output live in exact-size malloc blocks (8-aligned)",
    "schemas with several arrays bound to one sizer are skipped (the generator's documented refusal)"]
RULE_CPP = RULE + "; evaluations = driver cases (vector x byte order x operation)"
RULE_RANDOM = ("; plus randomly drawn deeper schemas and values (vf/gen.py) whose canonical images TLC computes from the "
               "encoder specification (WireGiven!TSpec) and whose arbitrary mutations (truncation, byte/word "
               "substitution, extension, excision, random strings) the reference decoder (WireDecGiven) judges")


def c03(tier, replay):
    return _run_cpp("C03", tier, ["compat"], ASSUME_CPP, RULE_CPP + RULE_RANDOM, random_leg="canonical")


def c05(tier, replay):
    return _run_cpp("C05", tier, ["gbs"], ASSUME_CPP, RULE_CPP + RULE_RANDOM, random_leg="canonical")


def c07(tier, replay):
    vs = wire.generate_faults(tier)
    return _run_cpp("C07", tier, ["memsafe"], ASSUME_CPP + [
        "fault space as in C06 (spec/WireDec.tla Faulted); allocation during decode is summed by a replaced global "
        "operator new in the driver (budget 64*len + 64 KiB, exceeded => the process stops instead of allocating)",
        "the reference decoder's accept/reject verdict is recorded as information only"],
        "TLC enumerates every faulted image (truncations, extensions, control-word corruptions) of every enumerated "
        "(schema, value); each is decoded by the generated C++ codec under ASan+UBSan; distinct = distinct schemas"
        + RULE_RANDOM, vs=vs, random_leg="faults")


def c18(tier, replay):
    """Text rendering: spec/Print.tla text vs python str() vs C++ print()."""
    import random
    from . import schema as S
    rep = Report("C18", tier)
    rep.assumptions = ASSUME_CPP + [
        "scalar payloads are replaced by values the Print specification can render (non-negative < 2^31, -1, small "
        "negative i8/i16) and bytes of every escape class incl. both quote characters; schemas with floats are not used",
        "the C++ object printed is the one decoded from the specification's little-endian image"]
    vs = wire.generate(tier, light=True)
    for st in vs.stats:
        rep.add_tlc(st)
    groups = [g for g in wire.group_vectors(vs) if '"flt"' not in json.dumps(g["cons"])]   # float text is excluded
    rnd = random.Random(wire.seed())
    cap = 500 if tier == "quick" else 6000
    if len(groups) > cap:
        groups = rnd.sample(groups, cap)
    # randomly drawn deeper schemas (vf/gen.py), same treatment
    from . import randwire
    _, rgroups, rstats = randwire.canonical_groups(tier, 71, n_quick=48, n_thorough=1200)
    rgroups = [g for g in rgroups if '"flt"' not in json.dumps(g["cons"])]
    vs.inner["given"] = []
    for g in rgroups:
        for v in g["vectors"]:
            v["pin_gid"] = g["gid"]      # type names are derived from the group id: keep it through regrouping
    groups += rgroups
    rep.cov["random_schemas"] = len(rgroups)
    items, where = [], []
    for g in groups:
        env = wire.make_env(vs.inner[g["inner"]], g)
        t = S.Ref(len(env.defs))
        keep = g["vectors"] if len(g["vectors"]) <= 6 else rnd.sample(g["vectors"], 6)
        g["vectors"] = keep
        for vec in keep:
            vec["walk"] = wire.repayload_for_print(env, t, vec["walk"], salt=len(items) * 5)
            items.append({"env": env.defs, "names": env.names, "walk": vec["walk"], "obsL": [], "obsB": []})
            where.append(vec)
    texts, st1 = wire.render_text(items)
    rep.add_tlc(st1)
    verdicts, illegal, st2 = wire.validate_traces(items)
    rep.add_tlc(st2)
    for vec, text, v in zip(where, texts, verdicts):
        if text is None or v is None or "?" in text:
            raise wire.MachineryError("specification produced no text/bytes for a print item: %r" % (text,))
        vec["text"] = text
        vec["outL"], vec["outB"], vec["gta"] = v["outL"], v["outB"], v["gta"]
        vec.pop("role", None)
    vs2 = wire.VectorSet()
    vs2.inner = vs.inner
    vs2.vectors = [v for g in groups for v in g["vectors"]]
    py_leg(rep, vs2, ["print"])
    cpp_leg(rep, vs2, ["print"], tier)
    rep.cov["rule"] = RULE_CPP + "; text comes from spec/Print.tla for the re-payloaded walk"
    return rep.finish()


def raw_leg(rep, vs, checks, tier, nbatch=12):
    pid = rep.pid
    all_groups = wire.group_vectors(vs)
    groups = _select_cpp(all_groups, tier, cap_quick=3000 if checks == ["offsets"] else 800, cap_thorough=15000)
    results = wire.run_batches(rawwire.worker, groups, vs, {"checks": checks, "scratch": scratch_dir("raw")},
                               nbatch=nbatch, timeout=3000)
    for r in results:
        if "crash" in r:
            rep.violation({"what": "worker crashed or hung: %s" % r["crash"], "groups": r["groups"]})
            continue
        rep.count(r["n_cases"])
        rep.validated(r["n_cases"])
        for s in r["samples"]:
            rep.sample(s)
        for gid in r["nontrivial"]:
            rep.nontrivial("raw:%s" % gid)
        for f in r["fails"]:
            rep.violation(f, shadows.match(pid, f))
        for k, n in r.get("n_checked", {}).items():
            rep.cov["raw_checked_" + k] = rep.cov.get("raw_checked_" + k, 0) + n
    rep.cov["raw_schemas"] = len(groups)
    rep.cov["raw_schemas_available"] = len(all_groups)


ASSUME_RAW = ASSUME_COMMON + [
    "generated raw C++ (--cpp_out) built with g++ 12 (GCC x86-64 ABI) -O0 -fsanitize=address,undefined; message "
    "buffers are 8-aligned and surrounded by guard bytes"]


def raw_random_leg(rep, checks, tier):
    """randomly drawn deeper schemas (vf/gen.py): layout, raw offset tables and
    canonical image pairs computed by TLC, replayed into the raw C++ codec"""
    from . import randwire
    pid = rep.pid
    groups, stats = randwire.raw_groups(tier, 53)
    for st in stats:
        rep.add_tlc(st)
    results = wire.run_batches(rawwire.worker, groups, randwire._VS(), {"checks": checks, "scratch": scratch_dir("raw")},
                               nbatch=16, timeout=3000)
    for r in results:
        if "crash" in r:
            rep.violation({"what": "worker crashed or hung: %s" % r["crash"], "groups": r["groups"]})
            continue
        rep.count(r["n_cases"])
        rep.validated(r["n_cases"])
        for gid in r["nontrivial"]:
            rep.nontrivial("raw:%s" % gid)
        for f in r["fails"]:
            rep.violation(f, shadows.match(pid, f))
        for k, n in r.get("n_checked", {}).items():
            rep.cov["raw_random_checked_" + k] = rep.cov.get("raw_random_checked_" + k, 0) + n
    rep.cov["raw_random_schemas"] = len(groups)


def _run_raw(pid, tier, checks, rule):
    rep = Report(pid, tier)
    rep.assumptions = ASSUME_RAW
    raw_random_leg(rep, checks, tier)
    vs = wire.generate_layouts(tier) if checks == ["offsets"] else wire.generate(tier, light=True)
    wire.add_reproducers(vs, pid)
    for st in vs.stats:
        rep.add_tlc(st)
    raw_leg(rep, vs, checks, tier)
    rep.cov["rule"] = rule
    rep.cov["exhaustive"] = rep.cov["raw_schemas"] == rep.cov["raw_schemas_available"]
    return rep.finish()


def c08(tier, replay):
    return _run_raw("C08", tier, ["offsets"], RULE + "; evaluations = offsetof/sizeof table entries compared with "
                    "spec/Layout.tla RawTable (offsets relative to the start of the struct or part)")


def c09(tier, replay):
    return _run_raw("C09", tier, ["swap"], RULE + "; evaluations = swap cases (one per enumerated value)")


# ---------------------------------------------------------------------------
# --replay for the wire family: the failing schema alone, all its values
# ---------------------------------------------------------------------------
REPLAY_LEGS = {
    "C01": [("py", ["enc"])], "C02": [("py", ["dec"])], "C03": [("cpp", ["compat"])],
    "C04": [("py", ["layout"]), ("cpp", ["ebs"])], "C05": [("cpp", ["gbs"])], "C08": [("raw", ["offsets"])],
    "C09": [("raw", ["swap"])], "C19": [("py", ["mirror"]), ("cpp", ["mirror"])],
}


def replay(pid, case):
    """Re-execute the recorded failing schema (every value TLC generates for
    it) against the current /repo.  Exit 1 iff the property is still violated
    for that schema."""
    if pid not in REPLAY_LEGS or "cons" not in case or "inner_defs" not in case:
        return None
    rep = Report(pid, "quick")
    rep.assumptions = ["replay of one recorded schema: %s" % case.get("schema", "")[:200]]
    defs = case["inner_defs"] + case["cons"]
    groups, stats = wire.generate_given([defs], max_len=3 if pid in ("C01", "C02") else 2)
    rep.add_tlc(stats)
    vs = wire.VectorSet()
    vs.inner["given"] = []
    for g in groups:
        vs.vectors += g["vectors"]
    for leg, checks in REPLAY_LEGS[pid]:
        if leg == "py":
            py_leg(rep, vs, checks)
        elif leg == "cpp":
            cpp_leg(rep, vs, checks, "quick")
        else:
            raw_leg(rep, vs, checks, "quick")
    rep.cov["rule"] = "replay: all structural values (array lengths <= bound) of the recorded schema"
    rep.nontrivial("replay-a")
    rep.nontrivial("replay-b")
    return rep.finish()
