"""Debug helper: cluster a VERIF_DEBUG fails dump by schema shape."""
import json, collections, re, sys
fs = json.load(open(sys.argv[1]))
c = collections.Counter(); ex = {}
def norm(s): return re.sub(r'X\d+_', 'X_', s).replace('\n', ' ')
for d in fs:
    k = norm(d.get('schema', '?')) + ' | ' + re.sub(r'[0-9a-f]{6,}', 'H', re.sub(r'X\d+_', 'X_', d['what']))[:110]
    c[k] += 1; ex.setdefault(k, d['what'])
print(len(fs), len(c))
for k, n in c.most_common(int(sys.argv[2]) if len(sys.argv) > 2 else 40):
    print(n, k, '\n      ', ex[k][:300])
