import json, collections, re, sys
fs = json.load(open(sys.argv[1]))
c = collections.Counter(); ex = {}
for d in fs:
    op = (d.get('op') or {})
    w = re.sub(r'\{.*', '', d['what'])[:90]
    k = (op.get('op'), op.get('arg'), d.get('observed_out'), str(d.get('expected_outs')), w)
    c[k] += 1; ex.setdefault(k, d)
print(len(fs), len(c))
for k, n in c.most_common(int(sys.argv[2]) if len(sys.argv) > 2 else 30):
    d = ex[k]
    print(n, k)
    print('     ', d['what'][:400].replace('\n', ' '))
    print('     ', d['schema'].replace('\n', ' ')[:200])
