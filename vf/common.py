"""Shared plumbing: paths, scratch directories, evidence, verdict reporting,
known findings.  No verification logic lives here."""
import atexit
import hashlib
import json
import os
import shutil
import sys
import tempfile
import time

VERIF = os.path.dirname(os.path.dirname(os.path.abspath(__file__)))
REPO = os.environ.get("VERIF_REPO", "/repo")
SPEC = os.path.join(VERIF, "spec")
# VERIF_OUT redirects what a run writes (seed testing against a scratch tree)
EVIDENCE = os.path.join(os.environ.get("VERIF_OUT", VERIF), "evidence")
REPLAYS = os.path.join(os.environ.get("VERIF_OUT", VERIF), "replays")
KNOWN_FILE = os.path.join(VERIF, "KNOWN_FINDINGS.txt")
VENV_PY = "/venv/bin/python"
NCPU = os.cpu_count() or 4

_scratch = []


def scratch_dir(prefix="vf"):
    base = os.environ.get("VERIF_SCRATCH", tempfile.gettempdir())
    d = tempfile.mkdtemp(prefix=prefix + "-", dir=base)
    _scratch.append(d)
    return d


@atexit.register
def _cleanup():
    if os.environ.get("VERIF_KEEP"):
        return
    for d in _scratch:
        shutil.rmtree(d, ignore_errors=True)


def seed():
    try:
        return int(os.environ.get("VERIF_SEED", "0"))
    except ValueError:
        return 0


class MachineryError(Exception):
    """The verification machinery itself failed (exit 2, never a verdict)."""


def sha(obj):
    return hashlib.sha1(json.dumps(obj, sort_keys=True, default=str).encode()).hexdigest()[:16]


class Known:
    """KNOWN_FINDINGS.txt: committed, never written at run time.

        known: property=<id> key=<key> <what fails>
        fixed: property=<id> <commit> <what failed>

    A `known` line suppresses exactly the violations whose key matches; keys
    are produced by the narrow structural shadow predicates in vf/shadows.py.
    """

    def __init__(self):
        self.known = {}
        if os.path.exists(KNOWN_FILE):
            for line in open(KNOWN_FILE):
                line = line.strip()
                if not line.startswith("known:"):
                    continue
                parts = line.split(None, 3)
                pid = parts[1].split("=", 1)[1]
                key = parts[2].split("=", 1)[1]
                self.known[(pid, key)] = parts[3] if len(parts) > 3 else ""

    def lookup(self, pid, key):
        return self.known.get((pid, key))

    def keys_for(self, pid):
        return [k for (p, k) in self.known if p == pid]


# evidence level per property = MANIFEST level_claimed.category (vf/manifest.py)
LEVELS = {"C06": "fault_enumeration", "C07": "fault_enumeration", "C13": "fault_enumeration"}


class Report:
    """Collects what one check run covered and found; writes the evidence
    file and prints VIOLATION / KNOWN-FINDING lines."""

    def __init__(self, pid, tier, level="model_checking"):
        self.pid = pid
        self.tier = tier
        self.level = LEVELS.get(pid, level)
        self.t0 = time.time()
        self.cov = {"states": 0, "transitions": 0, "traces_validated_against_impl": 0,
                    "samples": [], "evaluations": 0, "distinct_nontrivial": 0,
                    "rule": "", "exhaustive": False, "shadowed": 0}
        self.assumptions = []
        self.violations = []      # (key, detail dict)
        self.known_hits = {}      # key -> count
        self.known = Known()
        self._nontrivial = set()

    # ---- coverage bookkeeping
    def add_tlc(self, stats):
        self.cov["states"] += stats.get("distinct", 0)
        self.cov["transitions"] += stats.get("generated", 0)
        self.cov.setdefault("tlc_runs", []).append(stats)

    def count(self, n=1):
        self.cov["evaluations"] += n

    def validated(self, n=1):
        self.cov["traces_validated_against_impl"] += n

    def nontrivial(self, key):
        self._nontrivial.add(key)

    def sample(self, obj, limit=3):
        if len(self.cov["samples"]) < limit:
            self.cov["samples"].append(obj)

    # ---- verdicts
    def violation(self, detail, shadow_key=None):
        """Record a disagreement.  If `shadow_key` names a known finding it is
        counted as shadowed, otherwise it is a violation."""
        if shadow_key and self.known.lookup(self.pid, shadow_key) is not None:
            self.known_hits[shadow_key] = self.known_hits.get(shadow_key, 0) + 1
            self.cov["shadowed"] += 1
            if shadow_key + "#example" not in self.cov:
                self.cov[shadow_key + "#example"] = detail
            return False
        self.violations.append(detail)
        return True

    def finish(self):
        self.cov["distinct_nontrivial"] = len(self._nontrivial)
        os.makedirs(EVIDENCE, exist_ok=True)
        for key, n in sorted(self.known_hits.items()):
            print("KNOWN-FINDING: property=%s %s [%s, %d case(s) this run]"
                  % (self.pid, self.known.lookup(self.pid, key), key, n))
        paths = []
        if os.environ.get("VERIF_DEBUG") and self.violations:
            with open(os.path.join(os.environ["VERIF_DEBUG"], self.pid + ".fails.json"), "w") as f:
                json.dump(self.violations, f, default=str)
        if self.violations:
            os.makedirs(os.path.join(REPLAYS, self.pid), exist_ok=True)
            seen = set()
            for v in self.violations[:20]:
                h = sha(v)
                if h in seen:
                    continue
                seen.add(h)
                path = os.path.join(REPLAYS, self.pid, h + ".json")
                with open(path, "w") as f:
                    json.dump({"property": self.pid, "seed": seed(), "case": v}, f, indent=1, default=str)
                paths.append(path)
                print("VIOLATION property=%s replay=%s" % (self.pid, path))
                brief = v.get("what") if isinstance(v, dict) else None
                if brief:
                    print("  " + str(brief)[:600])
            if len(self.violations) > len(paths):
                print("  (%d violating cases in total; first %d written)" % (len(self.violations), len(paths)))
        ev = {
            "property_id": self.pid,
            "tier": self.tier,
            "seed": seed(),
            "level": self.level,
            "coverage": self.cov,
            "assumptions": self.assumptions,
            "wall_s": round(time.time() - self.t0, 2),
            "violations": len(self.violations),
        }
        if not os.environ.get("VERIF_REPLAY"):       # a replay is not a run of the check
            with open(os.path.join(EVIDENCE, self.pid + ".json"), "w") as f:
                json.dump(ev, f, indent=1, default=str)
        return 1 if self.violations else 0


def die_machinery(msg):
    sys.stderr.write("MACHINERY-ERROR: %s\n" % msg)
    sys.exit(2)


# ---------------------------------------------------------------------------
# watchdog on CPU time: a call that does not return is detected by the CPU
# seconds IT consumes (ITIMER_PROF), so a loaded machine cannot produce a
# false "did not terminate"; a wall-clock backstop catches a sleeping hang
# ---------------------------------------------------------------------------
def watchdog_install(handler):
    import signal
    signal.signal(signal.SIGPROF, handler)
    signal.signal(signal.SIGALRM, handler)


def watchdog_start(cpu_seconds, wall_factor=40):
    import signal
    signal.setitimer(signal.ITIMER_PROF, cpu_seconds)
    signal.alarm(int(cpu_seconds * wall_factor))


def watchdog_stop():
    import signal
    signal.setitimer(signal.ITIMER_PROF, 0)
    signal.alarm(0)
