"""Binding to the prophyc pipeline (C12-C17, C20): renderers for isar XML and
multi-file prophy input, in-process and subprocess runners with watchdogs."""
import io
import os
import contextlib
import subprocess
import sys

from . import schema as S
from . import pyleg as P
from .common import REPO, VENV_PY

ISAR_PRIM = {"u8": "u8", "u16": "u16", "u32": "u32", "u64": "u64", "i8": "i8", "i16": "i16", "i32": "i32", "i64": "i64",
             "float": "r32", "double": "r64"}


def xml_escape(s):
    return s.replace("&", "&amp;").replace("<", "&lt;").replace(">", "&gt;").replace('"', "&quot;")


# ---------------------------------------------------------------------------
# dependency graphs -> isar XML (C15)
# ---------------------------------------------------------------------------
def topo_order(deps):
    """deps: {node: [deps]} -> a dependency order (lowest id first among ready nodes)"""
    done, out = set(), []
    nodes = sorted(deps)
    while len(out) < len(nodes):
        for n in nodes:
            if n not in done and all(d in done for d in deps[n]):
                done.add(n)
                out.append(n)
                break
        else:
            raise ValueError("cycle")
    return out


def assign_kinds(deps, variant):
    """variant 0: every definition is a struct.  variant 1: mixed kinds;
    leaves alternate constant / enum / typedef / struct, inner nodes are
    constants when they only depend on constants and enums, else structs or
    unions."""
    kinds = {}
    if variant == 0:
        return {n: "struct" for n in deps}
    if variant == 2:
        # types only, unions frequent (also unions of unions and structs of
        # unions); unions that depend on an enum take their discriminators
        # from its enumerators (symbolic discriminatorValue)
        leaf_cycle = ["enum", "struct", "enum", "typedef"]
        li = 0
        for n in topo_order(deps):
            ds = deps[n]
            if not ds:
                kinds[n] = leaf_cycle[li % 4]
                li += 1
            elif len(ds) == 1 and n % 2 == 0:
                kinds[n] = "typedef"       # isar places typedefs first: they pull their target forward
            else:
                kinds[n] = "union" if n % 2 else "struct"
        return kinds
    leaf_cycle = ["constant", "enum", "typedef", "struct"]
    li = 0
    for n in topo_order(deps):
        ds = deps[n]
        if not ds:
            kinds[n] = leaf_cycle[li % 4]
            li += 1
        elif all(kinds[d] in ("constant", "enum") for d in ds):
            # a constant, an enum whose enumerator values use the dependencies, or a struct sized by them
            kinds[n] = ("constant", "enum", "struct")[n % 3]
        elif all(kinds[d] in ("struct", "union", "enum", "typedef") for d in ds) and n % 3 == 0:
            kinds[n] = "union"
        elif all(kinds[d] in ("struct", "union", "enum", "typedef") for d in ds) and n % 3 == 1 and len(ds) == 1:
            kinds[n] = "typedef"
        else:
            kinds[n] = "struct"
    return kinds


def const_expr(n, ds, kinds, consts):
    """(text, value) of constant n: the operand spelling varies with n so that
    every way a name can sit in an expression is covered (blanks or not,
    + - * << |, parentheses); `consts` holds the values of earlier constants
    (missing ones count as 0 - used only when rendering the text)."""
    ops = []
    for d in ds:
        ops.append(("C%d" % d, consts.get(d, 0)) if kinds[d] == "constant" else ("N%d_A" % d, consts.get(d, d)))
    form = n % 5
    if not ops:
        return str(n), n
    names = [o[0] for o in ops]
    vals = [o[1] for o in ops]
    if form == 0:
        return " + ".join(names + [str(n)]), sum(vals) + n
    if form == 1:
        return "+".join(names) + "-0+%d" % n, sum(vals) + n
    if form == 2:
        return "(" + "+".join(names) + ")*2+%d" % n, sum(vals) * 2 + n
    if form == 3:
        return "%s<<1" % names[0] + "".join("+" + x for x in names[1:]), vals[0] * 2 + sum(vals[1:])
    return "%d+" % n + "*1+".join(names) + "*1", n + sum(vals)


def union_discriminators(ds, kinds):
    """{arm node: (discriminatorValue text, number)}: numeric, except that the
    first two arms of a union depending on an enum are named by that enum's
    enumerators (N<e>_A = e, N<e>_B = e + 10)"""
    enums = [d for d in ds if kinds[d] == "enum"]
    out = {}
    for j, d in enumerate(ds):
        if enums and j == 0:
            out[d] = ("N%d_A" % enums[0], enums[0])
        elif enums and j == 1:
            out[d] = ("N%d_B" % enums[0], enums[0] + 10)
        else:
            out[d] = (str(100 + d), 100 + d)
    return out


def isar_elements(deps, kinds):
    """-> {node: xml element text}; names: N<i> (types), C<i> (constants)"""
    def nm(n):
        return ("C%d" if kinds[n] == "constant" else "N%d") % n
    out = {}
    for n, ds in deps.items():
        k = kinds[n]
        if k == "constant":
            out[n] = '<constant name="%s" value="%s"/>' % (nm(n), xml_escape(const_expr(n, ds, kinds, {})[0]))
        elif k == "enum":
            # a dependent enum's enumerators are expressions over its dependencies (an enumerator that refers to an
            # earlier enumerator of the SAME enum is avoided: isar values reach the Python module as raw text, where
            # the class body cannot see them - the known finding isar-raw-expression-text's family)
            a_text = xml_escape(const_expr(n, ds, kinds, {})[0]) if ds else str(n)
            if ds and n % 2 == 0:
                # every reference sits in a value that STARTS with a number
                a_text = "0 + " + a_text
                b_text = "10 + (%s)" % a_text
            else:
                b_text = ("(%s) + 10" % a_text) if ds else str(n + 10)
            out[n] = ('<enum name="%s"><enum-member name="%s_A" value="%s"/><enum-member name="%s_B" value="%s"/></enum>'
                      % (nm(n), nm(n), a_text, nm(n), b_text))
        elif k == "typedef":
            if ds:
                out[n] = '<typedef name="%s" type="%s"/>' % (nm(n), nm(ds[0]))
            else:
                out[n] = '<typedef name="%s" primitiveType="16 bit integer unsigned"/>' % nm(n)
        elif k == "union":
            disc = union_discriminators(ds, kinds)
            # two arms of one builtin type first: a type name repeated before the first new one
            arms = '<member name="o1" type="u8" discriminatorValue="250"/><member name="o2" type="u8" discriminatorValue="251"/>'
            arms += "".join('<member name="a%d" type="%s" discriminatorValue="%s"/>' % (d, nm(d), disc[d][0]) for d in ds)
            out[n] = '<union name="%s">%s</union>' % (nm(n), arms)
        else:
            members = ['<member name="own" type="u8"/>', '<member name="own2" type="u8"/>']
            for d in ds:
                if kinds[d] == "constant":
                    members.append('<member name="arr%d" type="u16"><dimension size="%s"/></member>' % (d, nm(d)))
                elif kinds[d] == "enum" and (n + d) % 2:
                    # an array sized by the enum's first enumerator (dependency through the size expression only)
                    members.append('<member name="arr%d" type="u16"><dimension size="%s_A"/></member>' % (d, nm(d)))
                elif (n + d) % 3 == 0:
                    # used only through an optional member
                    members.append('<member name="m%d" type="%s" optional="true"/>' % (d, nm(d)))
                else:
                    members.append('<member name="m%d" type="%s"/>' % (d, nm(d)))
            out[n] = '<struct name="%s">%s</struct>' % (nm(n), "".join(members))
    return out, nm


def isar_document(deps, order, kinds):
    elems, nm = isar_elements(deps, kinds)
    return '<?xml version="1.0"?>\n<definitions>\n%s\n</definitions>\n' % "\n".join(elems[n] for n in order), nm


def schema_env_for_graph(deps, kinds):
    """The same definitions as a specification environment (in dependency
    order) - used to obtain sizes from spec/Layout.tla.  Constants become
    array extents.  Returns (defs, index of node in defs or None)."""
    order = topo_order(deps)
    defs, idx, consts = [], {}, {}
    for n in order:
        k, ds = kinds[n], deps[n]
        if k == "constant":
            consts[n] = const_expr(n, ds, kinds, consts)[1]
            continue
        if k == "enum":
            a = const_expr(n, ds, kinds, consts)[1] if ds else n
            consts[n] = a
            defs.append(S.EnumDef([a, a + 10]))
        elif k == "typedef":
            defs.append(S.TypedefDef(S.Ref(idx[ds[0]]) if ds else S.Int(2)))
        elif k == "union":
            disc = union_discriminators(ds, kinds)
            defs.append(S.UnionDef([{"d": 250, "t": S.Int(1)}, {"d": 251, "t": S.Int(1)}] +
                                   [{"d": disc[d][1], "t": S.Ref(idx[d])} for d in ds]))
        else:
            ms = [S.Mem("plain", S.Int(1)), S.Mem("plain", S.Int(1))]
            for d in ds:
                if kinds[d] == "constant":
                    ms.append(S.Mem("fixed", S.Int(2), consts[d]))
                elif kinds[d] == "enum" and (n + d) % 2:
                    ms.append(S.Mem("fixed", S.Int(2), consts.get(d, d)))
                elif (n + d) % 3 == 0:
                    ms.append(S.Mem("opt", S.Ref(idx[d])))
                else:
                    ms.append(S.Mem("plain", S.Ref(idx[d])))
            defs.append(S.StructDef(ms))
        idx[n] = len(defs)
    return defs, idx, consts


# ---------------------------------------------------------------------------
# dependency graphs -> C++ headers for the sack front-end (C15, spec/DemandSort.tla)
# ---------------------------------------------------------------------------
def sack_kinds(deps, hidden):
    """-> {node: (kind, form)}.  Visible definitions are what build_model sees
    among the top-level cursors (named structs and enums, also inside extern
    "C"); hidden ones are only ever built on demand: unions, classes,
    definitions inside a namespace, anonymous structs named by a typedef."""
    out = {}
    for n in sorted(deps):
        leaf = not deps[n]
        if n in hidden:
            if leaf and n % 2:
                out[n] = ("enum", "ns")
            elif not leaf and n % 2:
                out[n] = ("union", ("plain", "ns")[(n // 2) % 2])
            else:
                out[n] = ("struct", ("ns", "anon", "class")[(n + len(deps[n])) % 3])
        else:
            if leaf and n % 2:
                out[n] = ("enum", "plain")
            else:
                out[n] = ("struct", ("plain", "externc")[(n // 2) % 2])
    return out


def sack_model_name(n, kinds):
    return ("ns__N%d" if kinds[n][1] == "ns" else "N%d") % n


def sack_header(deps, src, kinds, n_included):
    """-> (main header text, included header text or None).  The first
    `n_included` definitions of `src` go into inc.hpp."""
    def cpp(n):
        return ("ns::N%d" if kinds[n][1] == "ns" else "N%d") % n

    def member(n, d):
        if kinds[n][0] == "union":
            return "%s a%d;" % (cpp(d), d)
        if kinds[d][0] != "enum" and (n + d) % 3 == 0:
            return "%s m%d[2];" % (cpp(d), d)
        if (n + d) % 3 == 1:
            return "A%d_t m%d;" % (d, d)
        return "%s m%d;" % (cpp(d), d)

    def members_of(n):
        ds = sorted(deps[n])
        if ds:
            k = n % len(ds)
            ds = ds[k:] + ds[:k]          # spec/DemandSort.tla Members(n, deps)
        return ds

    def definition(n):
        kind, form = kinds[n]
        if kind == "enum":
            body = "enum N%d { N%d_A = %d, N%d_B = %d };" % (n, n, n, n, n + 10)
        else:
            first = "uint8_t o1;" if kind == "union" else "uint8_t own;"
            inner = " ".join([first] + [member(n, d) for d in members_of(n)])
            if form == "anon":
                body = "typedef struct { %s } N%d;" % (inner, n)
            elif form == "class":
                body = "class N%d { public: %s };" % (n, inner)
            else:
                body = "%s N%d { %s };" % (kind, n, inner)
        if form == "ns":
            body = "namespace ns { %s }" % body
        elif form == "externc":
            body = 'extern "C" { %s }' % body
        return body + "\ntypedef %s A%d_t;\n" % (cpp(n), n)

    inc = "#include <stdint.h>\n" + "".join(definition(n) for n in src[:n_included]) if n_included else None
    main = ('#include "inc.hpp"\n' if n_included else "#include <stdint.h>\n") + "".join(definition(n) for n in src[n_included:])
    return main, inc


def sack_env_for_graph(deps, kinds):
    """the same definitions as a specification environment (dependency order)"""
    defs, idx = [], {}
    for n in topo_order(deps):
        kind = kinds[n][0]
        ds = sorted(deps[n])
        if ds:
            k = n % len(ds)
            ds = ds[k:] + ds[:k]
        if kind == "enum":
            defs.append(S.EnumDef([n, n + 10]))
        elif kind == "union":
            defs.append(S.UnionDef([{"d": 0, "t": S.Int(1)}] + [{"d": j + 1, "t": S.Ref(idx[d])} for j, d in enumerate(ds)]))
        else:
            ms = [S.Mem("plain", S.Int(1))]
            for d in ds:
                if kinds[d][0] != "enum" and (n + d) % 3 == 0:
                    ms.append(S.Mem("fixed", S.Ref(idx[d]), 2))
                else:
                    ms.append(S.Mem("plain", S.Ref(idx[d])))
            defs.append(S.StructDef(ms))
        idx[n] = len(defs)
    return defs, idx


def _twin_kind(n, deps, hidden):
    if not deps[n]:
        return "enum" if n % 2 else "struct"
    return "union" if (n % 2 and n in hidden) else "struct"


def _twin_members(n, deps):
    ds = sorted(deps[n])
    if ds:
        k = n % len(ds)
        ds = ds[k:] + ds[:k]
    return ds


def sack_twin_header(deps, src, hidden):
    """The whole graph twice, in namespaces `a` and `b`, under the SAME names
    (the copy in `b` is wider: an extra u64 in every struct and union), every
    reference written unqualified or keyword-elaborated inside its namespace;
    a top-level Root uses the sinks of both copies."""
    def copy(ns):
        out = []
        for n in src:
            kind = _twin_kind(n, deps, hidden)
            if kind == "enum":
                out.append("enum N%d { %sN%d_A = %d, %sN%d_B = %d };" % (n, ns, n, n, ns, n, n + 10))
                continue
            ms = []
            if ns == "b" and kind == "struct":
                ms.append("uint64_t wide;")
            ms.append("uint8_t o1;" if kind == "union" else "uint8_t own;")
            for d in _twin_members(n, deps):
                dk = _twin_kind(d, deps, hidden)
                spelled = ("N%d" % d) if (n + d) % 2 else ("%s N%d" % (dk, d))      # plain / elaborated
                if kind == "struct" and dk != "enum" and (n + d) % 3 == 0:
                    ms.append("%s m%d[2];" % (spelled, d))
                else:
                    ms.append("%s m%d;" % (spelled, d))
            if ns == "b" and kind == "union":
                ms.append("uint64_t wide;")
            out.append("%s N%d { %s };" % (kind, n, " ".join(ms)))
        return "namespace %s {\n%s\n}\n" % (ns, "\n".join(out))

    used = set(d for n in deps for d in deps[n])
    sinks = [n for n in sorted(deps) if n not in used]
    root = "struct Root { uint8_t own; %s };\n" % " ".join("%s::N%d r%s%d;" % (ns, n, ns, n) for n in sinks for ns in ("a", "b"))
    return "#include <stdint.h>\n" + copy("a") + copy("b") + root


def sack_twin_env(deps, hidden):
    """-> (defs, {(ns, n): index, "Root": index})"""
    defs, idx = [], {}
    for ns in ("a", "b"):
        for n in topo_order(deps):
            kind = _twin_kind(n, deps, hidden)
            ds = _twin_members(n, deps)
            if kind == "enum":
                defs.append(S.EnumDef([n, n + 10]))
            elif kind == "union":
                arms = [{"d": 0, "t": S.Int(1)}] + [{"d": j + 1, "t": S.Ref(idx[(ns, d)])} for j, d in enumerate(ds)]
                if ns == "b":
                    arms.append({"d": len(arms), "t": S.Int(8)})
                defs.append(S.UnionDef(arms))
            else:
                ms = ([S.Mem("plain", S.Int(8))] if ns == "b" else []) + [S.Mem("plain", S.Int(1))]
                for d in ds:
                    if _twin_kind(d, deps, hidden) != "enum" and (n + d) % 3 == 0:
                        ms.append(S.Mem("fixed", S.Ref(idx[(ns, d)]), 2))
                    else:
                        ms.append(S.Mem("plain", S.Ref(idx[(ns, d)])))
                defs.append(S.StructDef(ms))
            idx[(ns, n)] = len(defs)
    used = set(d for n in deps for d in deps[n])
    sinks = [n for n in sorted(deps) if n not in used]
    defs.append(S.StructDef([S.Mem("plain", S.Int(1))] + [S.Mem("plain", S.Ref(idx[(ns, n)])) for n in sinks for ns in ("a", "b")]))
    idx["Root"] = len(defs)
    return defs, idx


# ---------------------------------------------------------------------------
# running prophyc
# ---------------------------------------------------------------------------
INTERNAL_BASES = ("ValueError", "KeyError", "LookupError", "AttributeError", "TypeError", "IndexError", "AssertionError",
                  "RecursionError", "RuntimeError", "NameError", "ArithmeticError", "MemoryError", "OSError", "UnicodeError",
                  "SyntaxError")      # xml.etree.ElementTree.ParseError is a SyntaxError


class Watchdog(BaseException):
    """raised by the SIGALRM handler of a worker; never swallowed"""


def run_main(argv):
    """prophyc.main in-process.  -> ("ok", nodes) | ("diagnostic", text) |
    ("internal", "Type: text")  (designed channel = ProphycError / SystemExit
    with a message / plain Exception raised by the patcher)"""
    import prophyc
    err = io.StringIO()
    try:
        with contextlib.redirect_stderr(err), contextlib.redirect_stdout(io.StringIO()):
            nodes = prophyc.main(argv)
        return "ok", nodes, err.getvalue()
    except prophyc.ProphycError as e:
        return "diagnostic", str(e), err.getvalue()
    except Watchdog:
        raise
    except SystemExit as e:
        return "diagnostic", "SystemExit: %s" % (e.code,), err.getvalue()
    except BaseException as e:  # noqa
        # prophyc's own exception classes and the patcher's plain Exception are
        # its designed ways of refusing an input (python -m prophyc prints them)
        import prophyc.model as pm
        if isinstance(e, pm.ModelError) or type(e) is Exception:
            return "diagnostic", "%s: %s" % (type(e).__name__, str(e)[:500]), err.getvalue()
        # subclasses count as what they are: UnicodeDecodeError is a ValueError,
        # IsADirectoryError an OSError
        name = type(e).__name__
        base = next((b.__name__ for b in type(e).__mro__[1:] if b.__name__ in INTERNAL_BASES), None)
        label = "%s<%s>" % (name, base) if base else name
        return "internal", "%s: %s" % (label, str(e)[:500]), err.getvalue()


def run_cli(argv, cwd=None, env=None, timeout=60):
    """python -m prophyc as a subprocess.  -> (rc | "timeout", stdout+stderr)"""
    penv = dict(os.environ)
    penv["PYTHONPATH"] = REPO + os.pathsep + penv.get("PYTHONPATH", "")
    if env:
        penv.update(env)
    try:
        p = subprocess.run([VENV_PY, "-m", "prophyc"] + list(argv), cwd=cwd, env=penv, stdout=subprocess.PIPE,
                           stderr=subprocess.STDOUT, timeout=timeout)
        return p.returncode, p.stdout.decode(errors="replace")
    except subprocess.TimeoutExpired as e:
        return "timeout", (e.stdout or b"").decode(errors="replace")
