// Driver for generated C++ "full" codecs (C03 C05 C07 C18 C19).
// Included by a generated drv.cpp that defines REGISTRY (type name -> handler)
// and, per struct type, an overfill() overload.  Built with
// clang++ -fsanitize=address,undefined -fno-sanitize-recover=all.
//
// Protocol: argv[1] = case file, argv[2] = first case index to run.
// Case line:  <id> <type> <op> <order> <hex input or ->
//   op D: decode input, re-encode;  op O: decode, overfill limited arrays, encode
//   order: L | B | N
// Output (stdout, flushed per line):
//   BEGIN <id>
//   R <id> ok=<0|1> alloc=<bytes requested during decode> [gbs=.. ptr=.. ptrhex=.. vec=.. vechex=.. ebs=.. print=<hex>]
#include <stdint.h>
#include <stdio.h>
#include <stdlib.h>
#include <string.h>
#include <unistd.h>
#include <string>
#include <vector>
#include <new>

static size_t g_alloc_sum = 0;
static size_t g_alloc_budget = ~size_t(0);
static bool g_counting = false;

void* operator new(size_t n)
{
    if (g_counting)
    {
        g_alloc_sum += n;
        if (g_alloc_sum > g_alloc_budget)
        {
            // distinctive exit instead of really allocating gigabytes
            fprintf(stdout, "ALLOC-BUDGET %zu\n", g_alloc_sum);
            fflush(stdout);
            _exit(77);
        }
    }
    void* p = malloc(n ? n : 1);
    if (!p) { fprintf(stdout, "OOM\n"); fflush(stdout); _exit(78); }
    return p;
}
void* operator new[](size_t n) { return operator new(n); }
void operator delete(void* p) noexcept { free(p); }
void operator delete[](void* p) noexcept { free(p); }
void operator delete(void* p, size_t) noexcept { free(p); }
void operator delete[](void* p, size_t) noexcept { free(p); }

static std::string to_hex(const uint8_t* p, size_t n)
{
    static const char* d = "0123456789abcdef";
    std::string s;
    s.reserve(2 * n + 1);
    for (size_t i = 0; i < n; ++i) { s += d[p[i] >> 4]; s += d[p[i] & 15]; }
    if (s.empty()) s = "-";
    return s;
}

static std::vector<uint8_t> from_hex(const char* h)
{
    std::vector<uint8_t> v;
    if (h[0] == '-') return v;
    size_t n = strlen(h) / 2;
    v.resize(n);
    for (size_t i = 0; i < n; ++i)
    {
        unsigned x;
        sscanf(h + 2 * i, "%2x", &x);
        v[i] = uint8_t(x);
    }
    return v;
}

// An exact-size heap block, 8-aligned (malloc) so that ASan sees any access
// one byte outside [data, data + size).
struct exact_block
{
    uint8_t* p;
    size_t n;
    explicit exact_block(size_t n_, bool zero): p(static_cast<uint8_t*>(malloc(n_ ? n_ : 1))), n(n_)
    {
        if (zero) memset(p, 0, n_ ? n_ : 1);
    }
    ~exact_block() { free(p); }
};

template <class T>
bool decode_as(T& x, char order, const uint8_t* p, size_t n)
{
    switch (order)
    {
        case 'L': return x.template decode<prophy::little>(p, n);
        case 'B': return x.template decode<prophy::big>(p, n);
        default: return x.decode(p, n);
    }
}

template <class T>
size_t encode_ptr_as(const T& x, char order, void* p)
{
    switch (order)
    {
        case 'L': return x.template encode<prophy::little>(p);
        case 'B': return x.template encode<prophy::big>(p);
        default: return x.encode(p);
    }
}

template <class T>
std::vector<uint8_t> encode_vec_as(const T& x, char order)
{
    switch (order)
    {
        case 'L': return x.template encode<prophy::little>();
        case 'B': return x.template encode<prophy::big>();
        default: return x.encode();
    }
}

template <class T> void overfill(T&);
template <class T> void outgrow(T&);

template <class T>
void run_case(const char* id, char op, char order, const std::vector<uint8_t>& in)
{
    exact_block blk(in.size(), false);
    if (!in.empty()) memcpy(blk.p, in.data(), in.size());
    // op 'R': decode into an object that still holds what the previous 'R' case of this type left in it
    static T keep;
    T local;
    T& x = op == 'R' ? keep : local;
    g_alloc_sum = 0;
    g_alloc_budget = 64 * in.size() + 65536;
    g_counting = true;
    // op 'Z': the default-constructed object (optionals unset, arrays empty), no decode
    bool ok = op == 'Z' ? true : decode_as(x, order, blk.p, blk.n);
    g_counting = false;
    size_t alloc = g_alloc_sum;
    if (!ok)
    {
        printf("R %s ok=0 alloc=%zu\n", id, alloc);
        fflush(stdout);
        return;
    }
    if (op == 'O') overfill(x);
    if (op == 'P') outgrow(x);     // vectors counted by a one-byte sizer grown to 256 elements
    size_t gbs = x.get_byte_size();
    printf("G %s gbs=%zu\n", id, gbs);
    fflush(stdout);
    // the vector API allocates get_byte_size() bytes itself
    std::vector<uint8_t> vec = encode_vec_as(x, order);
    // pointer API into an exact, zeroed block of get_byte_size() bytes
    exact_block outb(gbs, true);
    size_t w = encode_ptr_as(x, order, outb.p);
    std::string text = x.print();
    printf("R %s ok=1 alloc=%zu gbs=%zu ptr=%zu ptrhex=%s vec=%zu vechex=%s ebs=%d print=%s\n",
           id, alloc, gbs, w, to_hex(outb.p, w <= gbs ? w : gbs).c_str(), vec.size(),
           to_hex(vec.data(), vec.size()).c_str(), int(T::encoded_byte_size),
           to_hex(reinterpret_cast<const uint8_t*>(text.data()), text.size()).c_str());
    fflush(stdout);
}

typedef void (*handler_t)(const char*, char, char, const std::vector<uint8_t>&);
struct reg_entry { const char* name; handler_t fn; };
extern const reg_entry REGISTRY[];
extern const size_t REGISTRY_SIZE;

int main(int argc, char** argv)
{
    if (argc < 3) return 2;
    {
        // the property's "native equals host order": assert the host order
        uint16_t probe = 1;
        printf("HOST %s\n", *reinterpret_cast<uint8_t*>(&probe) ? "little" : "big");
    }
    FILE* f = fopen(argv[1], "r");
    if (!f) return 2;
    long first = atol(argv[2]);
    static char line[1 << 20];
    long idx = 0;
    while (fgets(line, sizeof line, f))
    {
        if (idx++ < first) continue;
        char id[64], type[128], op, order;
        static char hex[1 << 20];
        if (sscanf(line, "%63s %127s %c %c %s", id, type, &op, &order, hex) != 5) continue;
        handler_t fn = 0;
        for (size_t i = 0; i < REGISTRY_SIZE; ++i)
            if (!strcmp(REGISTRY[i].name, type)) { fn = REGISTRY[i].fn; break; }
        if (!fn) { printf("NOTYPE %s\n", type); fflush(stdout); continue; }
        printf("BEGIN %s\n", id);
        fprintf(stderr, "BEGIN %s\n", id);   // recoverable sanitizer reports are attributed through this marker
        fflush(stdout);
        fn(id, op, order, from_hex(hex));
    }
    printf("END\n");
    fflush(stdout);
    return 0;
}
