// Driver for generated raw C++ codecs (C08 C09).  The generated drv.cpp
// defines print_tables() (offsetof/sizeof of every struct, part and union) and
// REGISTRY (type name -> swap handler).
// Protocol: argv[1] = "T" -> print the tables;  argv[1] = case file, argv[2] =
// first case index: each line "<id> <type> <hex of the foreign-endian image>".
// Output per case:  BEGIN <id> / R <id> ret=<returned offset> buf=<hex> guards=<0|1>
#include <stdint.h>
#include <stdio.h>
#include <stdlib.h>
#include <string.h>
#include <string>
#include <vector>

static const size_t GUARD = 32;

static std::string to_hex(const uint8_t* p, size_t n)
{
    static const char* d = "0123456789abcdef";
    std::string s;
    for (size_t i = 0; i < n; ++i) { s += d[p[i] >> 4]; s += d[p[i] & 15]; }
    if (s.empty()) s = "-";
    return s;
}

static std::vector<uint8_t> from_hex(const char* h)
{
    std::vector<uint8_t> v;
    if (h[0] == '-') return v;
    size_t n = strlen(h) / 2;
    v.resize(n);
    for (size_t i = 0; i < n; ++i) { unsigned x; sscanf(h + 2 * i, "%2x", &x); v[i] = uint8_t(x); }
    return v;
}

template <class T>
void run_swap(const char* id, const std::vector<uint8_t>& in)
{
    // 8-aligned message surrounded by guard bytes inside one heap block
    size_t total = GUARD + in.size() + GUARD + 8;
    uint8_t* block = static_cast<uint8_t*>(malloc(total));
    memset(block, 0xA5, total);
    uint8_t* msg = block + GUARD;   // malloc is 16-aligned, GUARD is a multiple of 8
    if (!in.empty()) memcpy(msg, in.data(), in.size());
    T* ret = prophy::swap(reinterpret_cast<T*>(msg));
    long off = reinterpret_cast<uint8_t*>(ret) - msg;
    bool guards = true;
    for (size_t i = 0; i < GUARD; ++i) if (block[i] != 0xA5) guards = false;
    for (size_t i = GUARD + in.size(); i < total; ++i) if (block[i] != 0xA5) guards = false;
    printf("R %s ret=%ld buf=%s guards=%d\n", id, off, to_hex(msg, in.size()).c_str(), int(guards));
    fflush(stdout);
    free(block);
}

typedef void (*handler_t)(const char*, const std::vector<uint8_t>&);
struct reg_entry { const char* name; handler_t fn; };
extern const reg_entry REGISTRY[];
extern const size_t REGISTRY_SIZE;
void print_tables();

int main(int argc, char** argv)
{
    if (argc < 2) return 2;
    if (!strcmp(argv[1], "T")) { print_tables(); printf("END\n"); return 0; }
    if (argc < 3) return 2;
    FILE* f = fopen(argv[1], "r");
    if (!f) return 2;
    long first = atol(argv[2]);
    static char line[1 << 20];
    static char hex[1 << 20];
    long idx = 0;
    while (fgets(line, sizeof line, f))
    {
        if (idx++ < first) continue;
        char id[64], type[128];
        if (sscanf(line, "%63s %127s %s", id, type, hex) != 3) continue;
        handler_t fn = 0;
        for (size_t i = 0; i < REGISTRY_SIZE; ++i)
            if (!strcmp(REGISTRY[i].name, type)) { fn = REGISTRY[i].fn; break; }
        if (!fn) { printf("NOTYPE %s\n", type); fflush(stdout); continue; }
        printf("BEGIN %s\n", id);
        fflush(stdout);
        fn(id, from_hex(hex));
    }
    printf("END\n");
    fflush(stdout);
    return 0;
}
