"""Binding to the generated C++ codecs: build drivers from generated sources,
run cases, attribute crashes to the case being processed."""
import os
import subprocess

from . import pyleg as P
from .common import VERIF, REPO

CPP_DIR = os.path.join(VERIF, "vf", "cpp")
INCLUDE = os.path.join(REPO, "prophy_cpp", "include")
SAN_FLAGS = ["-std=c++11", "-O0", "-gline-tables-only", "-fsanitize=address,undefined",
             "-fno-sanitize-recover=all", "-fsanitize-recover=enum", "-fno-omit-frame-pointer"]
# -fsanitize=enum alone is recoverable: the load of an out-of-range enum value (a
# known finding) is reported on stderr and the driver goes on, so that one known
# defect cannot use up the crash budget of a batch; everything else aborts
SAN_ENV = {"ASAN_OPTIONS": "detect_leaks=0:abort_on_error=0:exitcode=66:allocator_may_return_null=1",
           "UBSAN_OPTIONS": "print_stacktrace=0:halt_on_error=0:exitcode=67"}


class BuildFailure(Exception):
    def __init__(self, stage, text):
        Exception.__init__(self, "%s: %s" % (stage, text[-3000:]))
        self.stage = stage
        self.text = text


def _is_composite(env, t):
    b = env.base(t)
    return b["k"] == "ref" and env.d(b["i"])["k"] in ("struct", "union")


def gen_overfill(env, indices, fn="overfill"):
    """C++ overloads overfill(T&) that resize every limited array beyond its
    limit (C05: 'limited arrays filled beyond their limit'); with fn="outgrow":
    overloads that grow every vector counted by a ONE-BYTE sizer to 256 elements."""
    out = ["namespace prophy { namespace generated {"]
    for i in indices:
        d = env.d(i)
        if d["k"] not in ("struct", "union"):
            continue
        n = env.name(i)
        body = []
        if d["k"] == "union":
            cases = []
            for a, arm in enumerate(d["arms"], 1):
                if _is_composite(env, arm["t"]):
                    cases.append("case %s::discriminator_%s: %s(x.%s); break;" % (n, env.aname(a), fn, env.aname(a)))
            if cases:
                body.append("switch (x.discriminator) { %s default: break; }" % " ".join(cases))
        else:
            for j, m in enumerate(d["ms"], 1):
                f, name = m["f"], env.fname(j)
                comp = _is_composite(env, m["t"])
                if f == "plain" and comp:
                    body.append("%s(x.%s);" % (fn, name))
                elif f == "opt" and comp:
                    body.append("if (x.%s) %s(*x.%s);" % (name, fn, name))
                elif f == "lim" and fn == "overfill":
                    body.append("x.%s.resize(%d);" % (name, m["n"] + 2))
                elif f == "ext" and fn == "outgrow" and env.base(d["ms"][m["c"] - 1]["t"])["w"] == 1:
                    body.append("x.%s.resize(256);" % name)
                if f in ("fixed", "dyn", "lim", "ext", "greedy") and comp:
                    body.append("for (size_t i = 0; i < x.%s.size(); ++i) %s(x.%s[i]);" % (name, fn, name))
        out.append("inline void %s(%s& x) { (void)x; %s }" % (fn, n, " ".join(body)))
    out.append("} }")
    return "\n".join(out) + "\n"


def gen_full_driver(env_by_gid, roots, all_indices_env, stem):
    """roots: list of (type name).  all_indices_env: (env, indices) pairs to
    generate overfill for, in definition order."""
    src = ['#include "%s.ppf.hpp"' % stem, '#include <prophy/detail/message.hpp>']
    seen = set()
    for env, indices in all_indices_env:
        todo = [i for i in indices if env.name(i) not in seen]
        seen.update(env.name(i) for i in todo)
        src.append(gen_overfill(env, todo))
        src.append(gen_overfill(env, todo, fn="outgrow"))
    src.append('#include "full_driver.hpp"')
    src.append("using namespace prophy::generated;")
    src.append("const reg_entry REGISTRY[] = {")
    for name in roots:
        src.append('    {"%s", &run_case<%s>},' % (name, name))
    src.append("};")
    src.append("const size_t REGISTRY_SIZE = sizeof(REGISTRY) / sizeof(REGISTRY[0]);")
    return "\n".join(src) + "\n"


def run_cmd(cmd, cwd, timeout=900, env=None):
    penv = dict(os.environ)
    if env:
        penv.update(env)
    p = subprocess.run(cmd, cwd=cwd, stdout=subprocess.PIPE, stderr=subprocess.STDOUT, timeout=timeout, env=penv)
    return p.returncode, p.stdout.decode(errors="replace")


def build_full(text, workdir, stem, driver_src, compiler="clang++-14", flags=None):
    """prophyc --cpp_full_out on `text`, compile generated + driver.  Returns
    path of the executable."""
    path = os.path.join(workdir, stem + ".prophy")
    with open(path, "w") as f:
        f.write(text)
    try:
        P.run_prophyc([path, "--cpp_full_out", workdir])
    except BaseException as e:  # noqa
        raise BuildFailure("prophyc", "%s: %s" % (type(e).__name__, str(e)[:2000]))
    with open(os.path.join(workdir, "drv.cpp"), "w") as f:
        f.write(driver_src)
    flags = flags or SAN_FLAGS
    exe = os.path.join(workdir, "drv")
    objs = []
    for srcf in (stem + ".ppf.cpp", "drv.cpp"):
        obj = srcf + ".o"
        rc, out = run_cmd([compiler] + flags + ["-I", INCLUDE, "-I", CPP_DIR, "-I", workdir, "-c", srcf, "-o", obj],
                          workdir)
        if rc != 0:
            raise BuildFailure("compile " + srcf, out)
        objs.append(obj)
    rc, out = run_cmd([compiler] + flags + objs + ["-o", exe], workdir)
    if rc != 0:
        raise BuildFailure("link", out)
    return exe


def run_driver(exe, cases, workdir, per_run_timeout=120, crash_cap=25):
    """cases: list of (id, type, op, order, hex).  Runs the driver, restarting
    after every abnormal exit at the next case.  Returns dict id -> result:
       {"ok":..,...} parsed R line, or {"crash": text, "partial": {...}}"""
    case_file = os.path.join(workdir, "cases.txt")
    with open(case_file, "w") as f:
        for c in cases:
            f.write("%s %s %s %s %s\n" % (c[0], c[1], c[2], c[3], c[4] or "-"))
    index = {c[0]: k for k, c in enumerate(cases)}
    results = {}
    first = 0
    host = None
    restarts = 0
    while first < len(cases):
        try:
            p = subprocess.run([exe, case_file, str(first)], cwd=workdir, stdout=subprocess.PIPE,
                               stderr=subprocess.PIPE, timeout=per_run_timeout, env=dict(os.environ, **SAN_ENV))
            rc, out, err = p.returncode, p.stdout.decode(errors="replace"), p.stderr.decode(errors="replace")
            timed_out = False
        except subprocess.TimeoutExpired as e:
            rc = -9
            out = (e.stdout or b"").decode(errors="replace")
            err = (e.stderr or b"").decode(errors="replace")
            timed_out = True
        current = None
        partial = {}
        ended = False
        for line in out.splitlines():
            parts = line.split()
            if not parts:
                continue
            if parts[0] == "HOST":
                host = parts[1]
            elif parts[0] == "BEGIN":
                current = parts[1]
                partial = {}
            elif parts[0] == "G":
                partial = dict(kv.split("=", 1) for kv in parts[2:])
            elif parts[0] == "R":
                results[parts[1]] = dict(kv.split("=", 1) for kv in parts[2:])
                current = None
            elif parts[0] == "ALLOC-BUDGET":
                partial["alloc_budget_exceeded"] = parts[1]
            elif parts[0] == "NOTYPE":
                results["NOTYPE:" + parts[1]] = {}
            elif parts[0] == "END":
                ended = True
        # recoverable sanitizer reports (stderr) belong to the case whose BEGIN marker precedes them
        cur_err = None
        for line in err.splitlines():
            if line.startswith("BEGIN "):
                cur_err = line.split()[1]
            elif "runtime error:" in line and cur_err in results and "ubsan" not in results[cur_err]:
                results[cur_err]["ubsan"] = line.strip()[:300]
        if ended and rc == 0:
            break
        if current is None:
            # died outside a case: machinery problem
            raise BuildFailure("driver", "driver exited rc=%s outside a case\n%s\n%s" % (rc, out[-1000:], err[-2000:]))
        results[current] = {"crash": ("timeout" if timed_out else "exit %s" % rc), "stderr": (err if len(err) <= 3000 else err[:2000] + "\n...\n" + err[-1000:]),
                            "partial": partial}
        first = index[current] + 1
        restarts += 1
        if restarts >= crash_cap:
            # enough evidence from this batch; the remaining cases are not run
            for c in cases[first:]:
                results.setdefault(c[0], {"skipped": "crash cap reached"})
            break
    return results, host
