"""Worker: replay specification vectors into the generated C++ full codec
(built with ASan + UBSan)."""
import os
import shutil
import tempfile

from . import schema as S
from . import cppleg as C
from .pywire import _fail, scalar_extents, apply_mirror
from .wire import make_env


def cpp_full_accepts(env):
    """The generator's own documented refusal: several arrays bound to one
    sizer member (CppFullAccepts in the design)."""
    for d in env.defs:
        if d["k"] != "struct":
            continue
        seen = set()
        for m in d["ms"]:
            if m["f"] == "ext":
                if m["c"] in seen:
                    return False
                seen.add(m["c"])
    return True


def render_batch(inner_defs, groups):
    envs = {g["gid"]: make_env(inner_defs, g) for g in groups}
    ninner = len(inner_defs)
    first = next(iter(envs.values()))
    text = first.render(range(1, ninner + 1))
    for g in groups:
        e = envs[g["gid"]]
        text += "\n" + e.render(range(ninner + 1, len(e.defs) + 1))
    return envs, text


def build_batch(inner_defs, groups, work, stem="b"):
    envs, text = render_batch(inner_defs, groups)
    ninner = len(inner_defs)
    roots = [envs[g["gid"]].name(len(envs[g["gid"]].defs)) for g in groups]
    first = next(iter(envs.values()))
    pairs = [(first, range(1, ninner + 1))] + \
            [(envs[g["gid"]], range(ninner + 1, len(envs[g["gid"]].defs) + 1)) for g in groups]
    drv = C.gen_full_driver(envs, roots, pairs, stem)
    exe = C.build_full(text, work, stem, drv)
    return envs, exe


def worker(inner_defs, groups, extra):
    checks = set(extra["checks"])
    res = {"fails": [], "n_vec": 0, "n_groups": 0, "nontrivial": [], "samples": [], "n_checked": {},
           "skipped_groups": 0, "n_cases": 0}
    groups = [g for g in groups]
    kept = []
    for g in groups:
        if cpp_full_accepts(make_env(inner_defs, g)):
            kept.append(g)
        else:
            res["skipped_groups"] += 1
    if not kept:
        return res
    work = tempfile.mkdtemp(prefix="vfcpp-", dir=extra.get("scratch"))
    try:
        built = []
        counter = [0]

        def build_or_split(gs, depth=0):
            """Build a batch; on failure bisect to isolate the schema(s) that
            do not build (at most 6 isolated failures per batch)."""
            counter[0] += 1
            sub = os.path.join(work, "s%d" % counter[0])
            os.mkdir(sub)
            try:
                import time as _t
                t0 = _t.time()
                envs, exe = build_batch(inner_defs, gs, sub)
                res["t_build"] = res.get("t_build", 0) + _t.time() - t0
                built.append((gs, envs, exe, sub))
            except C.BuildFailure as e:
                shutil.rmtree(sub, ignore_errors=True)
                nfail = sum(1 for f in res["fails"] if f["check"] == "build")
                if len(gs) == 1 or nfail >= 6:
                    g = gs[0]
                    env = make_env(inner_defs, g)
                    _fail(res, "build", env, g, None,
                          "schema accepted by the specification does not build as C++ full codec (%s): %s"
                          % (e.stage, e.text[-800:]), stage=e.stage, ngroups=len(gs))
                    return
                half = len(gs) // 2
                build_or_split(gs[:half], depth + 1)
                build_or_split(gs[half:], depth + 1)

        build_or_split(kept)
        for gs, envs, exe, wd in built:
            run_groups(gs, envs, exe, wd, checks, res, extra)
    finally:
        shutil.rmtree(work, ignore_errors=True)
    return res


def run_groups(groups, envs, exe, wd, checks, res, extra):
    cases = []
    meta = {}
    overfill = "gbs" in checks
    for g in groups:
        env = envs[g["gid"]]
        root = env.name(len(env.defs))
        res["n_groups"] += 1
        if overfill and g["vectors"] and "inp" not in g["vectors"][0]:
            # C05 also on the default-constructed object (no decode involved)
            for order in ("L", "B"):
                cid = "%s.Z.%s" % (g["gid"], order)
                cases.append((cid, root, "Z", order, ""))
                meta[cid] = (g, g["vectors"][0], order, b"")
        for vi, vec in enumerate(g["vectors"]):
            res["n_vec"] += 1
            if not vec.get("gta", True) and not ("fault" in vec):
                continue
            if "inp" in vec:     # fault vector
                cid = "%s.%d" % (g["gid"], vi)
                order = vec["ord"]
                cases.append((cid, root, "D", order, bytes(vec["inp"]).hex()))
                meta[cid] = (g, vec, order, bytes(vec["inp"]))
                if vi % 2:
                    # ... and once more into an object that still holds what the previous decode of this kind
                    # left in it (an accepted value or the remains of a refused input): same judgments
                    cidr = cid + ".R"
                    cases.append((cidr, root, "R", order, bytes(vec["inp"]).hex()))
                    meta[cidr] = (g, vec, order, bytes(vec["inp"]))
                continue
            for order, data in (("L", vec["outL"]), ("B", vec["outB"]), ("N", vec["outL"])):
                cid = "%s.%d.%s" % (g["gid"], vi, order)
                cases.append((cid, root, "D", order, bytes(data).hex()))
                meta[cid] = (g, vec, order, bytes(data))
                if "compat" in checks and vi >= 1 and order == ("L", "B")[vi % 2]:
                    # ... and once more into an object that still holds the previous vector's value
                    cidr = cid + ".R"
                    cases.append((cidr, root, "R", order, bytes(data).hex()))
                    meta[cidr] = (g, vec, order, bytes(data))
                if overfill and order == "L":
                    cid2 = cid + ".O"
                    cases.append((cid2, root, "O", order, bytes(data).hex()))
                    meta[cid2] = (g, vec, order, bytes(data))
                    if vi == 0 and _has_byte_sizer(env):
                        cid3 = cid + ".P"
                        cases.append((cid3, root, "P", order, bytes(data).hex()))
                        meta[cid3] = (g, vec, order, bytes(data))
    if not cases:
        return
    import time as _t
    t0 = _t.time()
    results, host = C.run_driver(exe, cases, wd)
    res["t_run"] = res.get("t_run", 0) + _t.time() - t0
    res["n_cases"] += len(cases)
    if host != "little":
        raise RuntimeError("host byte order %r: the harness assumes a little-endian host" % host)
    for cid, (g, vec, order, data) in meta.items():
        r = results.get(cid)
        env = envs[g["gid"]]
        if r is None:
            raise RuntimeError("driver produced no result for case %s" % cid)
        judge(cid, r, env, g, vec, order, data, checks, res)
    for g in groups:
        if any(r == "p" for v in g["vectors"] for r in v.get("role", [])) or len(g["vectors"]) > 1:
            res["nontrivial"].append(g["gid"])
    if len(res["samples"]) < 2 and cases:
        c = cases[len(cases) // 2]
        g, vec, order, data = meta[c[0]]
        env = envs[g["gid"]]
        ninner = len(env.defs) - len(g["cons"])
        res["samples"].append({"schema": env.render(range(ninner + 1, len(env.defs) + 1)),
                               "case": list(c), "result": {k: v for k, v in results[c[0]].items() if k != "print"}})


def _n(res, key):
    res["n_checked"][key] = res["n_checked"].get(key, 0) + 1


def _has_byte_sizer(env):
    for d in env.defs:
        if d["k"] == "struct":
            for m in d["ms"]:
                if m["f"] == "ext" and env.base(d["ms"][m["c"] - 1]["t"])["w"] == 1:
                    return True
    return False


def judge(cid, r, env, g, vec, order, data, checks, res):
    is_fault = "inp" in vec
    op_overfill = cid.endswith(".O")
    if cid.endswith(".P"):
        # vectors grown beyond what their one-byte sizer can count: the size equalities must still hold
        if "gbs" not in checks or "skipped" in r:
            return
        _n(res, "gbs_outgrown")
        if "crash" in r:
            _fail(res, "gbs", env, g, vec, "encode after growing the vectors of one-byte sizers to 256 elements failed: %s; %s"
                  % (r["crash"], _first_report(r["stderr"])), case=cid, order=order, outgrown=True)
        elif r["ok"] == "1":
            gbs, ptr, nvec = int(r["gbs"]), int(r["ptr"]), int(r["vec"])
            if not (gbs == ptr == nvec):
                _fail(res, "gbs", env, g, vec, "vectors of one-byte sizers grown to 256 elements: get_byte_size()=%d, "
                      "encode(void*) wrote %d, encode() returned %d bytes" % (gbs, ptr, nvec), case=cid, order=order,
                      outgrown=True)
        return
    if ".Z." in cid:
        # default-constructed object: only the size equalities apply
        if "crash" in r:
            _fail(res, "gbs", env, g, None, "encode of the default-constructed %s failed: %s; %s"
                  % (env.name(len(env.defs)), r["crash"], _first_report(r["stderr"])), case=cid, order=order)
        elif "skipped" not in r:
            _n(res, "gbs_default_object")
            gbs, ptr, nvec, ebs = int(r["gbs"]), int(r["ptr"]), int(r["vec"]), int(r["ebs"])
            if not (gbs == ptr == nvec) or (ebs != -1 and gbs != ebs):
                _fail(res, "gbs", env, g, None, "default-constructed %s: get_byte_size()=%d, encode(void*) wrote %d, "
                      "encode() returned %d bytes, encoded_byte_size=%d" % (env.name(len(env.defs)), gbs, ptr, nvec, ebs),
                      case=cid, order=order)
        return
    kw = dict(case=cid, order=order, inp=data.hex())
    if "skipped" in r:
        res["n_checked"]["skipped_after_crash_cap"] = res["n_checked"].get("skipped_after_crash_cap", 0) + 1
        return
    if "crash" in r:
        text = "%s; %s" % (r["crash"], _first_report(r["stderr"]))
        part = r.get("partial", {})
        # attribute: over-reads / UB / allocation during decode -> memsafe (C07);
        # overflow while encoding (after the G line) -> gbs (C05)
        in_encode = "gbs" in part
        if in_encode:
            if "gbs" in checks:
                _fail(res, "gbs", env, g, vec, "encode%s failed after get_byte_size()=%s: %s"
                      % (" (overfilled)" if op_overfill else "", part.get("gbs"), text), **kw)
            elif "compat" in checks and not op_overfill:
                _fail(res, "compat", env, g, vec, "encode of the decoded canonical message failed: %s" % text, **kw)
        else:
            if "memsafe" in checks:
                _fail(res, "memsafe", env, g, vec, "decode(%s, %s) failed: %s" % (data.hex()[:200], order, text), **kw)
            elif "compat" in checks and not is_fault:
                _fail(res, "compat", env, g, vec, "decode of the canonical image failed: %s" % text, **kw)
        return
    ok = r["ok"] == "1"
    if "memsafe" in checks and r.get("ubsan"):
        _fail(res, "memsafe", env, g, vec, "decode(%s, %s): undefined behaviour: %s" % (data.hex()[:200], order, r["ubsan"]), **kw)
    if "memsafe" in checks:
        _n(res, "memsafe")
        alloc = int(r["alloc"])
        if alloc > 64 * len(data) + 65536:
            _fail(res, "memsafe", env, g, vec, "decode requested %d bytes for %d input bytes" % (alloc, len(data)), **kw)
        if ok and not op_overfill:
            if int(r["ptr"]) != len(data) or int(r["vec"]) != len(data):
                _fail(res, "memsafe", env, g, vec,
                      "accepted %d input bytes but re-encodes to %s (pointer) / %s (vector) bytes"
                      % (len(data), r["ptr"], r["vec"]), **kw)
    if is_fault:
        key = "%s/cpp-%s/spec-%s" % (vec["fault"][0], "accept" if ok else "reject", vec["verdict"])
        res.setdefault("outcomes", {})
        res["outcomes"][key] = res["outcomes"].get(key, 0) + 1
        if ok != (vec["verdict"] == "accept") and \
                sum(1 for x in res.setdefault("disagreements", []) if (x["cpp"] == "accept") == ok) < 2:
            res["disagreements"].append({"schema": env.render(), "order": order, "input": data.hex(),
                                         "cpp": "accept" if ok else "reject",
                                         "spec_decoder": (vec["verdict"] + " " + vec.get("reason", "")).strip()})
        return
    if "compat" in checks and not op_overfill:
        _n(res, "compat_into_populated" if cid.endswith(".R") else "compat")
        if not ok:
            _fail(res, "compat", env, g, vec, "C++ decode<%s> of the canonical image %s returned false"
                  % (order, data.hex()), **kw)
        else:
            if r["ptrhex"].replace("-", "") != data.hex():
                _fail(res, "compat", env, g, vec, "C++ encode<%s>(void*) = %s, canonical image %s"
                      % (order, r["ptrhex"], data.hex()), **kw)
            if r["vechex"].replace("-", "") != data.hex():
                _fail(res, "compat", env, g, vec, "C++ encode<%s>() = %s, canonical image %s"
                      % (order, r["vechex"], data.hex()), **kw)
    if not ok:
        return
    if "gbs" in checks:
        _n(res, "gbs")
        gbs, ptr, nvec, ebs = int(r["gbs"]), int(r["ptr"]), int(r["vec"]), int(r["ebs"])
        if not (gbs == ptr == nvec):
            _fail(res, "gbs", env, g, vec, "get_byte_size()=%d, encode(void*) wrote %d, encode() returned %d bytes%s"
                  % (gbs, ptr, nvec, " (limited arrays overfilled)" if op_overfill else ""), **kw)
        if ebs != -1 and gbs != ebs:
            _fail(res, "gbs", env, g, vec, "fixed type: get_byte_size()=%d but encoded_byte_size=%d" % (gbs, ebs), **kw)
    if "ebs" in checks and order == "L":
        _n(res, "ebs")
        want = g["lay"][len(env.defs) - 1]
        ebs = int(r["ebs"])
        exp = want["size"] if want["kind"] == 0 else -1
        if ebs != exp:
            _fail(res, "ebs", env, g, None, "C++ %s::encoded_byte_size = %d, layout rules give %d"
                  % (env.name(len(env.defs)), ebs, exp), type=env.name(len(env.defs)))
    if "print" in checks and order == "L" and r["vechex"].replace("-", "") != data.hex():
        # the object is not the value of the walk: the codec does not reproduce the image it decoded (C03's
        # business - the known optional-padding finding does this); its text is nobody's obligation
        _n(res, "print_not_judged_decode_differs")
    elif "print" in checks and order == "L":
        _n(res, "print")
        got = bytes.fromhex(r["print"].replace("-", "")).decode("latin-1")
        if got != vec["text"]:
            _fail(res, "print", env, g, vec, "C++ print() = %r, specification text %r" % (got, vec["text"]), **kw)
    if "mirror" in checks and order == "L":
        vec.setdefault("_cpp", {})["L"] = bytes.fromhex(r["vechex"].replace("-", ""))
    if "mirror" in checks and order in ("B", "N"):
        vec.setdefault("_cpp", {})[order] = bytes.fromhex(r["vechex"].replace("-", ""))
    if "mirror" in checks and len(vec.get("_cpp", {})) == 3:
        _n(res, "mirror")
        judge_mirror(env, g, vec, res)


def judge_mirror(env, g, vec, res):
    encL, encB, encN = vec["_cpp"]["L"], vec["_cpp"]["B"], vec["_cpp"]["N"]
    outL, outB = bytes(vec["outL"]), bytes(vec["outB"])
    if encN != encL:
        _fail(res, "mirror", env, g, vec, "native encoding %s differs from the host order (little) %s"
              % (encN.hex(), encL.hex()))
    if len(encL) != len(encB):
        _fail(res, "mirror", env, g, vec, "C++ little-endian encoding has %d bytes, big-endian %d"
              % (len(encL), len(encB)))
        return
    ext = scalar_extents(vec)
    pads = [p for p, r in enumerate(vec["role"]) if r == "p"]
    if encL == outL:
        if encB != apply_mirror(encL, ext):
            _fail(res, "mirror", env, g, vec, "C++ big-endian %s is not the scalar-wise mirror of little-endian %s"
                  % (encB.hex(), encL.hex()))
    elif encB == outB:
        _fail(res, "mirror", env, g, vec, "C++ little-endian %s is not the scalar-wise mirror of big-endian %s"
              % (encL.hex(), encB.hex()))
    elif len(encL) == len(outL):
        nonpad_ok = all(encL[p] == outL[p] for p in range(len(outL)) if vec["role"][p] != "p")
        if nonpad_ok and any(encL[p] != 0 or encB[p] != 0 for p in pads):
            _fail(res, "mirror", env, g, vec, "C++ non-zero padding byte: %s / %s" % (encL.hex(), encB.hex()))
        elif sorted(encL) != sorted(encB):
            _fail(res, "mirror", env, g, vec, "C++ byte orders differ by more than a permutation: %s / %s"
                  % (encL.hex(), encB.hex()))
    elif sorted(encL) != sorted(encB):
        _fail(res, "mirror", env, g, vec, "C++ byte orders differ by more than a permutation: %s / %s"
              % (encL.hex(), encB.hex()))


def _first_report(stderr):
    for line in stderr.splitlines():
        if "ERROR: AddressSanitizer" in line or "runtime error" in line or "SUMMARY" in line:
            return line.strip()[:300]
    return stderr.strip()[-300:]
