"""Random schema and value generation for the code -> specification direction
(trace validation).  Deliberately a DIFFERENT generator than the
specification's constructor: all scalar types incl. floats and signed ints,
typedef chains, unions and enums defined on the fly, deeper nesting, longer
arrays.  Legality of what it produces is checked by TLC (GivenLegal), not
trusted."""
import random
import struct as pystruct

from . import schema as S

FIXED, DYNAMIC, UNLIMITED = 0, 1, 2


def _kind(kinds, t):
    return kinds[t["i"] - 1] if t["k"] == "ref" else FIXED


def _struct_kind(kinds, ms):
    def unl(m):
        return m["f"] == "greedy" or (m["f"] == "plain" and _kind(kinds, m["t"]) == UNLIMITED)

    def dyn(m):
        return m["f"] in ("dyn", "ext", "greedy") or (m["f"] == "plain" and _kind(kinds, m["t"]) != FIXED)
    if ms and unl(ms[-1]):
        return UNLIMITED
    return DYNAMIC if any(dyn(m) for m in ms) else FIXED


def _is_int(defs, t):
    while t["k"] == "ref" and defs[t["i"] - 1]["k"] == "typedef":
        t = defs[t["i"] - 1]["t"]
    return t["k"] == "int"


def scalar_type(rnd):
    r = rnd.random()
    if r < 0.12:
        return S.Flt(rnd.choice([4, 8]))
    return S.Int(rnd.choice([1, 2, 4, 8]), rnd.choice([0, 0, 1]))


def gen_env(rnd, ntypes=None, max_members=6, allow_unlimited=True):
    """A random legal environment; the last definition is a struct (root)."""
    defs, kinds = [], []
    ntypes = ntypes or rnd.randint(2, 7)

    def any_type(max_kind):
        cands = [S.Ref(i + 1) for i in range(len(defs)) if kinds[i] <= max_kind]
        if cands and rnd.random() < 0.55:
            return rnd.choice(cands)
        return scalar_type(rnd)

    def gen_struct(is_last):
        n = rnd.randint(1, max_members)
        ms = []
        for j in range(1, n + 1):
            last = j == n
            f = rnd.choice(["plain", "plain", "plain", "opt", "fixed", "dyn", "lim", "ext", "greedy"])
            if f == "greedy" and not (last and allow_unlimited):
                f = "dyn"
            if f == "ext":
                sizers = [q for q, m in enumerate(ms, 1) if m["f"] == "plain" and _is_int(defs, m["t"])
                          and S.Env(defs).base(m["t"])["s"] == 0]
                if not sizers:
                    f = "plain"
                else:
                    c = rnd.choice(sizers)
            if f == "plain":
                t = any_type(UNLIMITED if (last and allow_unlimited) else DYNAMIC)
                ms.append(S.Mem("plain", t))
            elif f == "opt":
                ms.append(S.Mem("opt", any_type(FIXED)))
            elif f in ("fixed", "lim"):
                t = S.BYTE if rnd.random() < 0.15 else any_type(FIXED)
                ms.append(S.Mem(f, t, rnd.randint(1, 4)))
            elif f in ("dyn", "greedy"):
                t = S.BYTE if rnd.random() < 0.15 else any_type(DYNAMIC)
                ms.append(S.Mem(f, t))
            elif f == "ext":
                t = S.BYTE if rnd.random() < 0.15 else any_type(DYNAMIC)
                ms.append(S.Mem("ext", t, 0, c))
        return S.StructDef(ms)

    for idx in range(ntypes):
        is_last = idx == ntypes - 1
        r = rnd.random()
        if is_last or r < 0.55:
            d = gen_struct(is_last)
            k = _struct_kind(kinds, d["ms"])
        elif r < 0.7:
            vals = rnd.sample([0, 1, 2, 3, 5, 7, 100, 255, 256, 65536, 2147483647], rnd.randint(1, 4))
            d, k = S.EnumDef(vals), FIXED
        elif r < 0.85:
            narms = rnd.randint(1, 4)
            discs = rnd.sample([0, 1, 2, 3, 4, 9, 200, 70000], narms)
            d, k = S.UnionDef([{"d": dd, "t": any_type(FIXED)} for dd in discs]), FIXED
        else:
            t = any_type(DYNAMIC)
            d, k = S.TypedefDef(t), _kind(kinds, t)
        defs.append(d)
        kinds.append(k)
    return defs


def gen_scalar(rnd, b):
    if b["k"] == "flt":
        x = rnd.choice([0.0, 1.0, -2.5, 0.15625, 1e10, -3.0e-5, 123456.0, -0.0, float("inf"), float("-inf"), float("nan")])
        return tuple(pystruct.pack("<f" if b["w"] == 4 else "<d", x))
    if b["k"] == "byte":
        return (rnd.choice([0, 1, 9, 10, 13, 32, 39, 65, 92, 127, 128, 255]),)
    edge = rnd.random()
    w = b["w"]
    if edge < 0.15:
        return tuple([0] * w)
    if edge < 0.3:
        return tuple([255] * w)
    if edge < 0.4:
        return tuple([0] * (w - 1) + [128])
    return tuple(rnd.randrange(256) for _ in range(w))


def gen_value(rnd, env, t, max_len=5, depth=0):
    b = env.base(t)
    if b["k"] in ("int", "flt", "byte"):
        return gen_scalar(rnd, b)
    d = env.d(b["i"])
    if d["k"] == "enum":
        return ("enum", rnd.randint(1, len(d["vals"])))
    if d["k"] == "union":
        a = rnd.randint(1, len(d["arms"]))
        return ("union", a, gen_value(rnd, env, d["arms"][a - 1]["t"], max_len, depth + 1))
    lens = {}
    out = []
    ms = d["ms"]
    shrink = max(0, max_len - depth)
    for j, m in enumerate(ms, 1):
        f = m["f"]
        if f == "plain":
            if env.is_sizer(ms, j):
                w = env.base(m["t"])["w"]
                lens[j] = rnd.randint(0, min(shrink, 255 if w == 1 else shrink))
                out.append(("len", lens[j]))
            else:
                out.append(gen_value(rnd, env, m["t"], max_len, depth + 1))
        elif f == "opt":
            out.append(gen_value(rnd, env, m["t"], max_len, depth + 1) if rnd.random() < 0.6 else None)
        elif f == "fixed":
            out.append([gen_value(rnd, env, m["t"], max_len, depth + 1) for _ in range(m["n"])])
        elif f == "lim":
            out.append([gen_value(rnd, env, m["t"], max_len, depth + 1) for _ in range(rnd.randint(0, m["n"]))])
        elif f in ("dyn", "greedy"):
            out.append([gen_value(rnd, env, m["t"], max_len, depth + 1) for _ in range(rnd.randint(0, shrink))])
        elif f == "ext":
            out.append([gen_value(rnd, env, m["t"], max_len, depth + 1) for _ in range(lens[m["c"]])])
    return ("struct", out)


def with_tail_len(rnd, env, t, value, k):
    """The value with its greedy tail (the last member, followed through nested
    unlimited structs) made k elements long; None if there is no such tail."""
    b = env.base(t)
    if b["k"] != "ref" or env.d(b["i"])["k"] != "struct" or not env.d(b["i"])["ms"]:
        return None
    m = env.d(b["i"])["ms"][-1]
    members = list(value[1])
    if m["f"] == "greedy":
        members[-1] = [gen_value(rnd, env, m["t"], 2, 2) for _ in range(k)]
    elif m["f"] == "plain":
        inner = with_tail_len(rnd, env, m["t"], members[-1], k)
        if inner is None:
            return None
        members[-1] = inner
    else:
        return None
    return ("struct", members)


def gen_env_roles(rnd):
    """A small environment with FIXED type names in fixed roles: T1 and T2 are
    drawn from a menu of leaf types of every alignment and kind, T3 uses them
    as plain member, optional, array element and sizer-bound element, T4 is a
    union over them, T5 the root.  Two draws share all names and differ in
    what the names mean - for checks on state keyed by type name."""
    I, M, R = S.Int, S.Mem, S.Ref

    def leaf(prev):
        menu = [
            (S.StructDef([M("plain", I(1))]), FIXED),
            (S.StructDef([M("plain", I(2))]), FIXED),
            (S.StructDef([M("plain", I(4)), M("plain", I(1))]), FIXED),
            (S.StructDef([M("plain", I(1)), M("plain", I(8))]), FIXED),
            (S.StructDef([M("plain", S.Flt(8))]), FIXED),
            (S.StructDef([M("plain", I(4)), M("plain", I(4)), M("plain", I(4))]), FIXED),     # 12 bytes, 4-aligned
            (S.StructDef([M("plain", I(2)), M("fixed", I(1), 3)]), FIXED),                      # 6 bytes, 2-aligned (5 + pad)
            (S.StructDef([M("opt", I(8))]), FIXED),
            (S.StructDef([M("lim", I(2), 3)]), FIXED),
            (S.StructDef([M("dyn", I(2))]), DYNAMIC),
            (S.StructDef([M("plain", I(4)), M("dyn", I(8))]), DYNAMIC),
            (S.EnumDef([1, 5]), FIXED),
            (S.UnionDef([{"d": 1, "t": I(1)}]), FIXED),
            (S.UnionDef([{"d": 1, "t": I(1)}, {"d": 2, "t": I(8)}]), FIXED),
            (S.TypedefDef(I(2)), FIXED),
            (S.TypedefDef(I(8)), FIXED),
        ]
        if prev is not None:
            menu.append((S.TypedefDef(R(1)), prev))
            menu.append((S.StructDef([M("plain", I(1)), M("plain", R(1))]), prev))
            if prev == FIXED:
                # unions whose largest arm is not the most aligned one
                menu.append((S.UnionDef([{"d": 1, "t": I(8)}, {"d": 2, "t": R(1)}]), FIXED))
                menu.append((S.UnionDef([{"d": 0, "t": R(1)}, {"d": 3, "t": I(2)}]), FIXED))
                menu.append((S.StructDef([M("opt", R(1)), M("plain", I(1))]), FIXED))
        return rnd.choice(menu)

    d1, k1 = leaf(None)
    d2, k2 = leaf(k1)
    ms = [M("plain", I(1))]
    for i, k in ((1, k1), (2, k2)):
        roles = ["plain", "dyn"] + (["opt", "fixed", "lim"] if k == FIXED else [])
        for f in rnd.sample(roles, rnd.randint(1, len(roles))):
            if f in ("fixed", "lim"):
                ms.append(M(f, R(i), rnd.randint(1, 3)))
            else:
                ms.append(M(f, R(i)))
    rnd.shuffle(ms)
    ms.insert(0, M("plain", I(rnd.choice([1, 2, 4]))))
    ms.append(M("ext", R(rnd.choice([1, 2])), 0, 1))
    d3 = S.StructDef(ms)
    arms = [{"d": 7, "t": I(2)}] + [{"d": i, "t": R(i)} for i, k in ((1, k1), (2, k2)) if k == FIXED and rnd.random() < 0.8]
    d4 = S.UnionDef(arms)
    d5 = S.StructDef([M("plain", I(1)), M("opt", R(4)), M("plain", R(3))])
    return [d1, d2, d3, d4, d5]


def gen_env_sizers(rnd):
    """One struct whose externally sized arrays sit in later parts than their
    sizers: sizers of every width at random earlier positions, dynamic arrays
    in between, scalars of every alignment around them."""
    I, M = S.Int, S.Mem
    n_sizers = rnd.randint(1, 2)
    ms = []
    sizer_pos = []
    total = rnd.randint(4, 7)
    for j in range(1, total + 1):
        r = rnd.random()
        if len(sizer_pos) < n_sizers and (r < 0.35 or j == 1):
            # (one sizer in three is a signed integer)
            ms.append(M("plain", I(rnd.choice([1, 2, 4, 8]), rnd.choice([0, 0, 1]))))
            sizer_pos.append(j)
        elif r < 0.6:
            ms.append(M("dyn", rnd.choice([I(1), I(2), I(4), I(8), S.BYTE])))
        elif r < 0.8 and sizer_pos:
            ms.append(M("ext", rnd.choice([I(1), I(2), I(4), I(8), S.BYTE]), 0, rnd.choice(sizer_pos)))
        else:
            ms.append(M("plain", I(rnd.choice([1, 2, 4, 8]))))
    ms.append(M("ext", rnd.choice([I(1), I(2), I(4)]), 0, sizer_pos[0]))
    if rnd.random() < 0.5:
        ms.append(M("plain", I(rnd.choice([1, 2, 8]))))
    return [S.StructDef(ms)]


def assign_shifts(rnd, defs):
    """Give some dynamic / externally sized arrays a bound SHIFT (Python
    runtime only: array(T, bound=.., shift=s); the wire counter is length + s).
    In the schema the shift sits in the otherwise unused field n of those forms.
    Arrays sharing one sizer share the shift; a sizer that also counts a
    limited array keeps shift 0.  Returns True if any shift was assigned."""
    any_ = False
    for d in defs:
        if d["k"] != "struct":
            continue
        per_sizer = {}
        for m in d["ms"]:
            if m["f"] == "limx":
                per_sizer[m["c"]] = 0
        for m in d["ms"]:
            if m["f"] == "dyn":
                m["n"] = rnd.choice([0, 1, 2, 3])
            elif m["f"] == "ext":
                if m["c"] not in per_sizer:
                    per_sizer[m["c"]] = rnd.choice([0, 1, 2])
                m["n"] = per_sizer[m["c"]]
            else:
                continue
            any_ = any_ or m["n"] > 0
    return any_


def gen_env_shared_sizer(rnd):
    """Several arrays bound to ONE sizer (a shape the C++ full generator refuses,
    so Python legs only): elements of every kind incl. structs, the last array
    sometimes last in the struct, sizers of every width."""
    I, M, R = S.Int, S.Mem, S.Ref
    elem = rnd.choice([S.StructDef([M("plain", I(2)), M("plain", I(1))]),
                       S.StructDef([M("plain", I(4))]),
                       S.StructDef([M("plain", I(1)), M("plain", I(8))]),
                       S.UnionDef([{"d": 1, "t": I(1)}, {"d": 2, "t": I(4)}]),
                       S.EnumDef([1, 2, 7])])
    # (a third of the sizers are SIGNED integers: the count on the wire is the same, but a decoder
    # reads a set top bit as a negative count)
    ms = [M("plain", I(rnd.choice([1, 2, 4, 8]), rnd.choice([0, 0, 1])))]
    if rnd.random() < 0.5:
        ms.insert(0, M("plain", I(rnd.choice([1, 4]))))
    sizer = len(ms)
    for _ in range(rnd.randint(2, 3)):
        ms.append(M("ext", rnd.choice([I(1), I(2), I(4), S.BYTE, R(1), R(1)]), 0, sizer))
        if rnd.random() < 0.3:
            ms.append(M("plain", I(rnd.choice([1, 2, 8]))))
    return [elem, S.StructDef(ms)]


def gen_env_tails(rnd):
    """A struct that ENDS in a member of unlimited struct type (a struct whose
    last member is a greedy array, possibly wrapped once more), behind fixed
    members of mixed alignment and sometimes a dynamic array: how the fixed
    part, the tail and the struct's own alignment meet is what this family
    concentrates on (static end padding vs. padding to the alignment)."""
    I, M, R = S.Int, S.Mem, S.Ref
    widths = [1, 2, 4, 8]
    # two draws in three: a wide member first, narrow ones and a narrow tail behind it - the fixed part then ends
    # short of the struct's alignment
    biased = rnd.random() < 0.67
    tail_widths = [1, 2] if biased else widths
    defs = [S.StructDef([M("plain", I(rnd.choice(tail_widths))) for _ in range(rnd.randint(0, 2))] +
                        [M("greedy", rnd.choice([I(w) for w in tail_widths] + [S.BYTE]))])]
    if rnd.random() < 0.35:
        defs.append(S.StructDef([M("plain", I(rnd.choice(tail_widths))) for _ in range(rnd.randint(0, 2))] + [M("plain", R(1))]))
    ms = []
    if biased:
        ms.append(M("plain", I(rnd.choice([4, 8]))))
    for _ in range(rnd.randint(1, 3)):
        r = rnd.random()
        if r < 0.6:
            ms.append(M("plain", I(rnd.choice(tail_widths))))
        elif r < 0.75:
            ms.append(M("opt", I(rnd.choice(widths))))
        elif r < 0.9:
            ms.append(M("fixed", I(rnd.choice([1, 2])), rnd.randint(1, 3)))
        else:
            ms.append(M("dyn", I(rnd.choice([1, 2, 4]))))
    ms.append(M("plain", R(len(defs))))
    defs.append(S.StructDef(ms))
    return defs


def gen_env_blocks(rnd):
    """One struct made of BLOCKS: a (possibly empty) fixed prefix, a dynamic
    field, then a block of two or three fixed members of mixed kinds and
    alignments (optionals, scalars, fixed and limited arrays), optionally a
    second dynamic field and block.  The partial-padding rules of the format
    (block alignment = the most aligned member of the block, wherever it
    sits) are what this family concentrates on."""
    I, M = S.Int, S.Mem
    widths = [1, 2, 4, 8]

    def fixed_member():
        r = rnd.random()
        w = rnd.choice(widths)
        if r < 0.35:
            return M("opt", I(w))
        if r < 0.65:
            return M("plain", I(w))
        if r < 0.8:
            return M("fixed", rnd.choice([I(w), S.BYTE]), rnd.randint(1, 3))
        return M("lim", rnd.choice([I(w), S.BYTE]), rnd.randint(1, 3))

    ms = []
    if rnd.random() < 0.6:
        ms.append(M("plain", I(rnd.choice(widths))))
    for _ in range(rnd.randint(1, 2)):
        # the dynamic field that closes the previous block
        if rnd.random() < 0.25 and any(m["f"] == "plain" and m["t"]["k"] == "int" for m in ms):
            sizers = [q for q, m in enumerate(ms, 1) if m["f"] == "plain" and m["t"]["k"] == "int"]
            ms.append(M("ext", rnd.choice([I(1), I(2), I(4), S.BYTE]), 0, rnd.choice(sizers)))
        else:
            ms.append(M("dyn", rnd.choice([I(1), I(2), I(4), I(8), S.BYTE])))
        for _ in range(rnd.randint(2, 3)):
            ms.append(fixed_member())
    return [S.StructDef(ms)]
