"""./check <Cxx> [quick|thorough] [--replay path]

exit 0: the property held on everything explored (KNOWN-FINDING lines allowed)
exit 1: VIOLATION property=<id> replay=<path>
exit 2: the machinery itself failed (never a verdict)"""
import importlib
import os
import sys
import traceback

from .common import MachineryError

CHECKS = {
    "C01": ("vf.checks_wire", "c01"),
    "C02": ("vf.checks_wire", "c02"),
    "C03": ("vf.checks_wire", "c03"),
    "C04": ("vf.checks_wire", "c04"),
    "C05": ("vf.checks_wire", "c05"),
    "C06": ("vf.checks_wire", "c06"),
    "C07": ("vf.checks_wire", "c07"),
    "C08": ("vf.checks_wire", "c08"),
    "C09": ("vf.checks_wire", "c09"),
    "C10": ("vf.checks_msg", "c10"),
    "C11": ("vf.checks_msg", "c11"),
    "C12": ("vf.checks_comp", "c12"),
    "C13": ("vf.checks_comp", "c13"),
    "C14": ("vf.checks_comp", "c14"),
    "C15": ("vf.checks_comp", "c15"),
    "C16": ("vf.checks_comp", "c16"),
    "C17": ("vf.checks_comp", "c17"),
    "C18": ("vf.checks_wire", "c18"),
    "C19": ("vf.checks_wire", "c19"),
    "C20": ("vf.checks_comp", "c20"),
}


def main(argv):
    if not argv:
        print(__doc__)
        return 2
    pid = argv[0].upper()
    tier = os.environ.get("VERIF_TIER", "quick")
    replay = None
    rest = argv[1:]
    while rest:
        a = rest.pop(0)
        if a in ("quick", "thorough"):
            tier = a
        elif a == "--replay":
            replay = rest.pop(0)
        else:
            print("unknown argument %r" % a)
            return 2
    if pid not in CHECKS:
        print("no check registered for %s" % pid)
        return 2
    modname, fn = CHECKS[pid]
    try:
        mod = importlib.import_module(modname)
        if replay:
            import json
            with open(replay) as f:
                rec = json.load(f)
            os.environ["VERIF_SEED"] = str(rec.get("seed", 0))
            os.environ["VERIF_REPLAY"] = "1"
            if hasattr(mod, "replay"):
                rc = mod.replay(pid, rec.get("case", {}))
                if rc is not None:
                    return rc
            # other families: the recorded seed reproduces the run that found it
        return getattr(mod, fn)(tier, replay)
    except MachineryError as e:
        sys.stderr.write("MACHINERY-ERROR: %s\n" % e)
        return 2
    except Exception:
        sys.stderr.write("MACHINERY-ERROR: unexpected exception in the harness\n")
        traceback.print_exc()
        return 2


if __name__ == "__main__":
    sys.exit(main(sys.argv[1:]))
