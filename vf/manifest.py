"""Writes /verif/MANIFEST.json from the table below (single source)."""
import json
import os

from .common import VERIF

BASELINE_OFF = ("cd /repo && /venv/bin/python -m pytest -ra -q -p no:cacheprovider --timeout=900 "
                "--continue-on-collection-errors")

WIRE_NOTE = ("Trusted: TLC, the transcription of docs/encoding.rst into spec/Layout.tla + spec/Wire.tla, the "
             "renderer env->prophy text and the walk<->API conversion in vf/. Bounds: see evidence (schemas over "
             "the curated inner environment, array lengths <= MaxLen, fixed scalar payload patterns).")

CLAIMS = {
    "C01": dict(
        category="model_checking",
        text=("spec/Wire.tla is an explicit encoder state machine transcribed from docs/encoding.rst; TLC "
              "enumerates every schema over a curated inner environment up to a member bound and every "
              "structural value, proving AlignedEmit/ZeroFillForward/FixedLength/Mirror on the format itself, "
              "and every finished behaviour (both byte orders) is replayed into prophyc --python_out + the "
              "generated module through the public API and compared byte for byte; -simulate adds deeper "
              "schemas. Exhaustive within the bound, which is where this code base's defects live (2-3 "
              "features interacting)."),
        design_ref="5/C01", technique="TLC-enumerated encoder behaviours replayed into the Python codec",
        note=WIRE_NOTE),
    "C02": dict(
        category="model_checking",
        text=("Same TLC behaviours as C01, restricted by the spec operator GreedyTailAligned: each canonical "
              "image is decoded into a fresh message, consumed length, field-for-field value (read back through "
              "the public API into the spec's walk) and re-encoding are compared with the specification."),
        design_ref="5/C02", technique="TLC-enumerated behaviours: decode(encode) replay against the spec walk",
        note=WIRE_NOTE),
    "C04": dict(
        category="model_checking",
        text=("spec/Layout.tla states size/alignment/stiffness declaratively; TLC checks SizeMultipleOfAlign, "
              "KindMonotone, FixedLength on every enumerated schema and dumps the numbers, which are compared "
              "with prophyc's model nodes and the Python runtime statics for every constructed type."),
        design_ref="5/C04", technique="TLC-computed layout vs prophyc model and runtime statics",
        note=WIRE_NOTE),
    "C06": dict(
        category="fault_enumeration",
        text=("spec/WireDec.tla is the reference decoder machine plus an explicit fault model; TLC checks "
              "DecoderInBounds/RoundTrip/TruncationDetected on it and enumerates, for every enumerated (schema, "
              "value), every truncation, extension and control-word corruption of the canonical image. Every "
              "faulted input is decoded by the real Python codec under a watchdog and a tracemalloc budget: the "
              "outcome must be a return or ProphyError; after a return the message must encode and be a decode "
              "fixpoint."),
        design_ref="5/C06", technique="TLC-enumerated fault sequences replayed into the Python decoder",
        note=WIRE_NOTE + " Value fixpoint is not demanded for unlimited roots whose re-encoding is byte-identical "
                         "(documented greedy-tail ambiguity)."),
    "C19": dict(
        category="model_checking",
        text=("Mirror is an invariant of spec/Wire.tla over outL/outB/role (checked by TLC); the byte roles of "
              "each behaviour are then used to check the Python codec's '<' and '>' outputs against each other "
              "(equal length, scalar-wise mirrored, padding zero) without using expected literals."),
        design_ref="5/C19", technique="TLC role map + metamorphic LE/BE comparison of the real codec",
        note=WIRE_NOTE),
}

PENDING = {}

TITLES = {}


def build():
    props = [json.loads(l) for l in open(os.path.join(VERIF, "properties.jsonl"))]
    checks, na = [], []
    for p in props:
        pid = p["id"]
        c = CLAIMS.get(pid)
        if c is None:
            na.append({"property_id": pid,
                       "reason": PENDING.get(pid, "check not built yet (construction order in DESIGN.md section 10); "
                                                  "not claimed until its seed mutants are detected")})
            continue
        checks.append({
            "property_id": pid,
            "quick_cmd": "./check %s quick" % pid,
            "thorough_cmd": "./check %s thorough" % pid,
            "evidence_file": "/verif/evidence/%s.json" % pid,
            "replay_cmd_template": "./check %s --replay {path}" % pid,
            "engine": "tlc+replay",
            "level_claimed": {"category": c["category"], "text": c["text"], "design_ref": c["design_ref"]},
            "level_note": c["note"],
            "technique": c["technique"],
        })
    man = {
        "version": 1,
        "setup_cmd": "./setup.sh",
        "hooks": {
            "guard": "PROPHY_VERIF",
            "enable": "no source hooks: every observation is made at public boundaries (see DESIGN.md section 6)",
            "baseline_off_cmd": BASELINE_OFF,
            "source_commits": [],
            "add_only": True,
        },
        "engines": [
            {"name": "tlc+replay", "path": "/verif/check",
             "serves_properties": [c["property_id"] for c in checks],
             "kind_free_text": "TLA+ specifications in /verif/spec checked by TLC; behaviours replayed into the "
                               "real code and recorded traces validated against the specification"},
        ],
        "checks": checks,
        "not_applicable": na,
        "notes": "See DESIGN.md. fix: commits in /repo are listed in KNOWN_FINDINGS.txt.",
    }
    with open(os.path.join(VERIF, "MANIFEST.json"), "w") as f:
        json.dump(man, f, indent=1)
    return man


if __name__ == "__main__":
    m = build()
    print("claimed:", [c["property_id"] for c in m["checks"]])
