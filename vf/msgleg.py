"""C10 / C11: the specification's message state graph (spec/Msg.tla, explored
by TLC) replayed into the real Python message objects.

 * transition leg : every (state, operation) edge TLC generated is executed on
   freshly built messages; outcome class and both projections must be one of
   the specification's allowed results for that edge.
 * history leg    : random walks through TLC's state graph are executed on ONE
   pair of live messages (so aliasing created by copy_from/extend persists);
   after every step both projections must be an allowed successor.
"""
import json
import os
import random
import shutil
import tempfile

from . import schema as S
from . import pyleg as P

# ---------------------------------------------------------------------------
# curated schemas: every field kind the property names
# ---------------------------------------------------------------------------
I, R, M = S.Int, S.Ref, S.Mem


def curated():
    E = S.EnumDef([5, 7, 0])
    SubF = S.StructDef([M("plain", I(1)), M("plain", I(2, 1))])               # fixed sub-struct
    SubD = S.StructDef([M("plain", I(1)), M("dyn", I(1))])                    # dynamic sub-struct
    U = S.UnionDef([{"d": 1, "t": I(2)}, {"d": 4, "t": R(2)}, {"d": 9, "t": R(1)}])
    UU = S.UnionDef([{"d": 2, "t": I(1)}, {"d": 3, "t": R(3)}])                # an arm that is itself a union
    return [
        # scalars, enum, float, bytes
        [E, S.StructDef([M("plain", I(1)), M("plain", I(4, 1)), M("plain", R(1)), M("plain", S.Flt(4)),
                         M("fixed", S.BYTE, 2), M("lim", S.BYTE, 2), M("dyn", S.BYTE)])],
        # scalar arrays of every kind
        [E, S.StructDef([M("fixed", I(1), 2), M("lim", I(2, 1), 2)])],
        [E, S.StructDef([M("dyn", I(1)), M("dyn", R(1))])],
        # externally sized pair sharing a sizer + greedy
        [S.StructDef([M("plain", I(1)), M("ext", I(2), 0, 1), M("ext", I(1), 0, 1), M("greedy", I(1))])],
        # optionals
        [E, SubF, S.StructDef([M("opt", I(1)), M("opt", R(1)), M("opt", R(2)), M("plain", R(2))])],
        # union with scalar / struct / enum arms, nested in a struct, and in an array
        [E, SubF, U, S.StructDef([M("plain", R(3)), M("lim", R(3), 2)])],
        # union nested in a union arm, in a dynamic array of unions, and as an optional
        [E, SubF, U, UU, S.StructDef([M("plain", R(4)), M("dyn", R(4)), M("opt", R(3))])],
        # composite arrays (dynamic elements with their own array) + fixed composite array
        [E, SubF, SubD, S.StructDef([M("dyn", R(3)), M("lim", R(2), 2), M("fixed", R(2), 2)])],
        # a message whose only composite member is optional (nothing but scalars next to it)
        [E, SubF, S.StructDef([M("plain", I(1)), M("opt", R(2)), M("opt", I(1))])],
        # ... the same shape as the element of an array
        [E, SubF, S.StructDef([M("plain", I(1)), M("opt", R(2))]), S.StructDef([M("dyn", R(3)), M("plain", I(1))])],
        # elements that hold a limited array of composites; the same type as an optional
        [E, SubF, S.StructDef([M("lim", R(2), 2), M("plain", I(1))]), S.StructDef([M("dyn", R(3)), M("opt", R(3))])],
    ]


# ---------------------------------------------------------------------------
# tokens <-> concrete Python values
# ---------------------------------------------------------------------------
TEST_BYTES = b"xyzw"


def int_bounds(b):
    bits = 8 * b["w"]
    return (-(1 << (bits - 1)), (1 << (bits - 1)) - 1) if b["s"] else (0, (1 << bits) - 1)


def conc_scalar(env, t, tok):
    """argument token -> Python object for a scalar-like field of type t"""
    b = env.base(t)
    common = {"str": "x", "float": 1.5, "none": None, "bytes": b"x", "estr": "", "elist": [], "zerof": 0.0, "zero": 0}
    if b["k"] == "int":
        lo, hi = int_bounds(b)
        table = {"0": 0, "1": 1, "max": hi, "min": lo, "min-1": lo - 1, "max+1": hi + 1}
        return table[tok] if tok in table else common[tok]
    if b["k"] == "flt":
        table = {"0.0": 0.0, "1.5": 1.5, "1": 1, "fbig": 1e39}
        return table[tok] if tok in table else common[tok]
    d = env.d(b["i"])
    if d["k"] == "enum":
        if tok[0] == "e" and tok[1:].isdigit():
            return env.ename(b["i"], int(tok[1:]))
        if tok[0] == "n" and tok[1:].isdigit():
            return d["vals"][int(tok[1:]) - 1]
        if tok == "e?":
            return "no_such_enumerator"
        if tok == "n?":
            return max(d["vals"]) + 1
        return common[tok]
    raise ValueError((t, tok))


def conc_bytes(tok):
    if tok[0] == "b" and tok[1:].isdigit():
        return TEST_BYTES[:int(tok[1:])]
    return {"str": u"text", "int": 5, "none": None}[tok]


def proj_scalar(env, t, x):
    b = env.base(t)
    if b["k"] == "int":
        lo, hi = int_bounds(b)
        if x == 0:
            return "0"
        if x == 1:
            return "1"
        if x == hi:
            return "max"
        if b["s"] and x == lo:
            return "min"
        return "?%r" % (x,)
    if b["k"] == "flt":
        return {0.0: "0.0", 1.5: "1.5", 1: "1"}.get(x, "?%r" % (x,)) if x != 0 else "0.0"
    d = env.d(b["i"])
    if int(x) in d["vals"]:
        return str(d["vals"].index(int(x)) + 1)
    return "?%r" % (x,)


def proj_bytes(m, x):
    if x == "":
        x = b""     # an unset bound/greedy bytes field reads as '' (str); both are the empty value
    x = bytes(x)
    if m["f"] == "fixed":
        if len(x) != m["n"]:
            return "?len%d" % len(x)
        x = x.rstrip(b"\x00")
    return "b%d" % len(x) if x == TEST_BYTES[:len(x)] else "?%r" % (x,)


def V(k, s="", q=(), n=0):
    return {"k": k, "s": s, "q": list(q), "n": n}


def project(env, obj, t):
    """live message -> abstract value (public reads only)"""
    b = env.base(t)
    d = env.d(b["i"])
    if d["k"] == "union":
        disc = obj.discriminator
        for a, arm in enumerate(d["arms"], 1):
            if arm["d"] == disc:
                return V("un", "", [_proj_val(env, getattr(obj, env.aname(a)), arm["t"])], a)
        return V("un", "?disc%r" % (disc,), [], 0)
    out = []
    for j, m in enumerate(d["ms"], 1):
        name = env.fname(j)
        if m["f"] == "plain" and env.is_sizer(d["ms"], j):
            out.append(V("sz"))
        elif m["f"] == "plain":
            out.append(_proj_val(env, getattr(obj, name), m["t"]))
        elif m["f"] == "opt":
            x = getattr(obj, name)
            out.append(V("none") if x is None else _proj_val(env, x, m["t"]))
        elif m["t"]["k"] == "byte":
            out.append(V("s", proj_bytes(m, getattr(obj, name))))
        else:
            out.append(V("ar", "", [_proj_val(env, e, m["t"]) for e in getattr(obj, name)]))
    return V("st", "", out)


def _proj_val(env, x, t):
    b = env.base(t)
    if b["k"] in ("int", "flt") or env.d(b["i"])["k"] == "enum":
        return V("s", proj_scalar(env, t, x))
    return project(env, x, t)


def build(env, obj, t, v):
    """abstract value -> live message, through the public API"""
    b = env.base(t)
    d = env.d(b["i"])
    if d["k"] == "union":
        arm = d["arms"][v["n"] - 1]
        obj.discriminator = arm["d"]
        _build_into(env, obj, env.aname(v["n"]), arm["t"], v["q"][0])
        return
    for j, (m, x) in enumerate(zip(d["ms"], v["q"]), 1):
        name = env.fname(j)
        f = m["f"]
        if x["k"] == "sz":
            continue
        if f == "plain":
            _build_into(env, obj, name, m["t"], x)
        elif f == "opt":
            if x["k"] == "none":
                continue
            if x["k"] == "s":
                setattr(obj, name, conc_scalar(env, m["t"], _tok_for(env, m["t"], x["s"])))
            else:
                setattr(obj, name, True)
                build(env, getattr(obj, name), m["t"], x)
        elif m["t"]["k"] == "byte":
            setattr(obj, name, conc_bytes(x["s"]))
        elif f == "fixed":
            arr = getattr(obj, name)
            for idx, e in enumerate(x["q"]):
                if e["k"] == "s":
                    arr[idx] = conc_scalar(env, m["t"], _tok_for(env, m["t"], e["s"]))
                else:
                    build(env, arr[idx], m["t"], e)
        else:
            arr = getattr(obj, name)
            for e in x["q"]:
                if e["k"] == "s":
                    arr.append(conc_scalar(env, m["t"], _tok_for(env, m["t"], e["s"])))
                else:
                    build(env, arr.add(), m["t"], e)


def _tok_for(env, t, stored):
    """stored (canonical) token -> an argument token producing it"""
    b = env.base(t)
    if b["k"] == "ref" and env.d(b["i"])["k"] == "enum":
        return "n" + stored
    return stored


def _build_into(env, obj, name, t, x):
    if x["k"] == "s":
        setattr(obj, name, conc_scalar(env, t, _tok_for(env, t, x["s"])))
    else:
        build(env, getattr(obj, name), t, x)


# ---------------------------------------------------------------------------
# executing one operation
# ---------------------------------------------------------------------------
def outcome_of(exc):
    import prophy
    if isinstance(exc, prophy.ProphyError):
        return "reject"
    if isinstance(exc, IndexError):
        return "index"
    if isinstance(exc, ValueError):
        return "value"
    if isinstance(exc, TypeError):
        return "type"
    return "other:%s: %s" % (type(exc).__name__, str(exc)[:120])


def navigate(env, obj, t, path):
    """-> (node object, its type/member descriptor).  A path ending in an "f"
    step that names an array member yields the array object."""
    for step in path:
        if step["s"] == "i":
            obj = obj[step["n"] - 1]
            t = t["t"]        # t was the array member: now its element type
            continue
        b = env.base(t)
        d = env.d(b["i"])
        if step["s"] == "u":
            arm = d["arms"][step["n"] - 1]
            obj = getattr(obj, env.aname(step["n"]))
            t = arm["t"]
        elif step["s"] == "f":
            m = d["ms"][step["n"] - 1]
            obj = getattr(obj, env.fname(step["n"]))
            t = m if (m["f"] in ("fixed", "dyn", "lim", "ext", "greedy") and m["t"]["k"] != "byte") else m["t"]
    return obj, t


def sl(x):
    return None if x == 99 else x


_spelling = [0]


class OpTimeout(BaseException):
    pass


def _op_alarm(signum, frame):
    raise OpTimeout()


def execute(env, root_t, mine, other, op):
    """one API operation under a 5 s watchdog (an operation that does not
    return is reported as outcome 'other:timeout')"""
    from .common import watchdog_install, watchdog_start, watchdog_stop
    watchdog_install(_op_alarm)
    watchdog_start(5)
    try:
        return _execute(env, root_t, mine, other, op)
    except OpTimeout:
        return "other:timeout: the operation did not return within 5 s of CPU time"
    finally:
        watchdog_stop()


def _execute(env, root_t, mine, other, op):
    """Apply op to message `mine`.  Returns outcome class."""
    name = op["op"]
    try:
        if name == "copy_from":
            mine.copy_from(other)
            return "ok"
        if name == "copy_from_wrong":
            mine.copy_from(object())
            return "ok"
        if name == "encode":
            mine.encode("<")
            return "ok"
        node, t = navigate(env, mine, root_t, op["path"])
        if name in ("set", "assign", "setopt"):
            b = env.base(t)
            m = env.d(b["i"])["ms"][op["j"] - 1]
            fname = env.fname(op["j"])
            if name == "assign":
                setattr(node, fname, [1])
            elif name == "setopt":
                setattr(node, fname, {"true": True, "none": None, "int": 1, "str": "x"}[op["arg"]])
            elif m["t"]["k"] == "byte":
                setattr(node, fname, conc_bytes(op["arg"]))
            elif m["f"] == "opt" and op["arg"] == "none":
                setattr(node, fname, None)
            else:
                setattr(node, fname, conc_scalar(env, m["t"], op["arg"]))
            return "ok"
        if name in ("disc", "readarm", "setarm"):
            b = env.base(t)
            arms = env.d(b["i"])["arms"]
            if name == "disc":
                a = op["arg"]
                if a[0] == "a" and a[1:].isdigit():
                    val = env.aname(int(a[1:]))
                elif a[0] == "d" and a[1:].isdigit():
                    val = arms[int(a[1:]) - 1]["d"]
                else:
                    val = {"a?": "zzz", "d?": max(x["d"] for x in arms) + 1, "float": 1.5, "none": None}[a]
                node.discriminator = val
            elif name == "readarm":
                getattr(node, env.aname(op["j"]))
            else:
                setattr(node, env.aname(op["j"]), conc_scalar(env, arms[op["j"] - 1]["t"], op["arg"]))
            return "ok"
        # array operations: node is the array object, t its member descriptor
        et = t["t"]
        cv = lambda tok: conc_scalar(env, et, tok)  # noqa
        if name == "append":
            node.append(cv(op["arg"]))
        elif name == "insert":
            node.insert(op["i1"], cv(op["arg"]))
        elif name == "extend":
            node.extend([cv(x) for x in op["args"]])
        elif name == "setitem":
            node[op["i1"]] = cv(op["arg"])
        elif name == "setslice":
            node[sl(op["i1"]):sl(op["i2"])] = [cv(x) for x in op["args"]]
        elif name == "setslice1":
            node[sl(op["i1"]):sl(op["i2"]):1] = [cv(x) for x in op["args"]]
        elif name == "setstep":
            node[sl(op["i1"]):sl(op["i2"]):op["i3"]] = [cv(x) for x in op["args"]]
        elif name == "delitem":
            del node[op["i1"]]
        elif name == "delslice":
            del node[sl(op["i1"]):sl(op["i2"])]
        elif name == "remove":
            node.remove(cv(op["arg"]))
        elif name == "add":
            node.add()
        elif name == "extendself":
            # both spellings: the array itself and a list of its elements
            _spelling[0] += 1
            node.extend(node if _spelling[0] % 2 else list(node))
        elif name == "extendother":
            try:
                onode, _ = navigate(env, other, root_t, op["path"])
            except (AttributeError, IndexError, TypeError):
                # the path does not exist in the other message (absent optional, shorter array on the way):
                # spec/Msg.tla ApplyAt then takes the array itself ("the shapes have diverged")
                onode = node
            _spelling[0] += 1
            node.extend(onode if _spelling[0] % 2 else list(onode))
        elif name == "addkw":
            elem_t = t["t"]          # t is the array member: its element type
            fname = env.fname(1)
            ft = env.d(env.base(elem_t)["i"])["ms"][0]["t"]
            node.add(**{fname: conc_scalar(env, ft, op["arg"])})
        elif name == "extendbad":
            node.extend(([node[0]] if len(node) else []) + [5])
        else:
            raise RuntimeError("unknown op %s" % name)
        return "ok"
    except RuntimeError:
        raise
    except Exception as e:  # noqa
        return outcome_of(e)


# ---------------------------------------------------------------------------
# aliasing probe (C11 "any later mutation ... at any nesting depth")
# ---------------------------------------------------------------------------
def perturbations(env, obj, t, path="msg"):
    """Yield (description, thunk) for single mutations reaching every nesting
    depth of composite `obj` through the public API.  Thunks may raise; the
    probe only looks at what happens to the OTHER message."""
    b = env.base(t)
    d = env.d(b["i"])
    if d["k"] == "union":
        disc = obj.discriminator
        for a, arm in enumerate(d["arms"], 1):
            if arm["d"] == disc:
                name = env.aname(a)
                for x in _perturb_field(env, obj, name, arm["t"], "%s.%s" % (path, name)):
                    yield x
        for a, arm in enumerate(d["arms"], 1):
            if arm["d"] != disc:
                yield ("%s.discriminator = %r" % (path, arm["d"]), lambda obj=obj, v=arm["d"]: setattr(obj, "discriminator", v))
                break
        return
    for j, m in enumerate(d["ms"], 1):
        name = env.fname(j)
        p = "%s.%s" % (path, name)
        f, t2 = m["f"], m["t"]
        if f == "plain":
            if env.is_sizer(d["ms"], j):
                continue
            for x in _perturb_field(env, obj, name, t2, p):
                yield x
        elif f == "opt":
            cur = getattr(obj, name)
            if cur is None:
                if _composite(env, t2):
                    yield (p + " = True", lambda obj=obj, name=name: setattr(obj, name, True))
                else:
                    yield (p + " = <value>", lambda obj=obj, name=name, t2=t2: setattr(obj, name, _other_value(env, t2, None)))
            else:
                for x in _perturb_field(env, obj, name, t2, p):
                    yield x
                yield (p + " = None", lambda obj=obj, name=name: setattr(obj, name, None))
        elif t2["k"] == "byte":
            yield (p + " = bytes", lambda obj=obj, name=name: setattr(obj, name, b"q"))
        else:
            arr = getattr(obj, name)
            if _composite(env, t2):
                for idx in range(len(arr)):
                    for x in perturbations(env, arr[idx], t2, "%s[%d]" % (p, idx)):
                        yield x
                if f != "fixed":
                    yield (p + ".add()", lambda arr=arr: arr.add())
                    if len(arr):
                        yield ("del %s[0]" % p, lambda arr=arr: arr.__delitem__(0))
            else:
                if len(arr):
                    yield (p + "[0] = <value>", lambda arr=arr, t2=t2: arr.__setitem__(0, _other_value(env, t2, arr[0])))
                if f != "fixed":
                    yield (p + ".append(<value>)", lambda arr=arr, t2=t2: arr.append(_other_value(env, t2, None)))


def _composite(env, t):
    b = env.base(t)
    return b["k"] == "ref" and env.d(b["i"])["k"] in ("struct", "union")


def _other_value(env, t, cur):
    b = env.base(t)
    if b["k"] == "int":
        return 1 if cur != 1 else 0
    if b["k"] == "flt":
        return 1.5 if cur != 1.5 else 0.0
    vals = env.d(b["i"])["vals"]
    return vals[0] if (cur is None or int(cur) != vals[0] or len(vals) == 1) else vals[1]


def _perturb_field(env, obj, name, t, p):
    if _composite(env, t):
        for x in perturbations(env, getattr(obj, name), t, p):
            yield x
    else:
        yield (p + " = <value>", lambda: setattr(obj, name, _other_value(env, t, getattr(obj, name))))


def aliasing_probe(env, t, A, B):
    """Mutate A everywhere (one mutation at a time); B must never change, and
    vice versa.  Returns a description of the first leak or None."""
    for src, dst, sn, dn in ((A, B, "a", "b"), (B, A, "b", "a")):
        try:
            before = key(project(env, dst, t))
        except Exception:
            return None
        for _round in range(3):       # mutations may open new sub-trees (switched arms, enabled optionals)
            for desc, thunk in list(perturbations(env, src, t, sn)):
                try:
                    thunk()
                except Exception:
                    continue
                after = key(project(env, dst, t))
                if after != before:
                    return "after the copy, `%s` on message %s changed message %s: %s -> %s" % (desc, sn, dn, before, after)
    return None


# ---------------------------------------------------------------------------
# worker
# ---------------------------------------------------------------------------
def key(x):
    return json.dumps(x, sort_keys=True)


def worker(gid, defs, edges, n_walks, walk_len, seed_, extra):
    """edges: MTR records of this schema (raw JSON text or parsed).  Every
    edge given is replayed; the history walks (n_walks > 0) move through the
    graph these edges form."""
    res = {"fails": [], "n_edges": 0, "n_walk_steps": 0, "n_walks": 0, "samples": [], "nontrivial": 0,
           "diverged_allowed": 0}
    env = S.Env(defs, names=["M%d_T%d" % (gid, i + 1) for i in range(len(defs))])
    work = tempfile.mkdtemp(prefix="vfmsg-", dir=extra.get("scratch"))
    try:
        mod, _ = P.compile_python(env.render(), work, "m")
    finally:
        shutil.rmtree(work, ignore_errors=True)
    root = len(defs)
    t = S.Ref(root)
    # graph: (a, b) -> (m, op) -> set of (out, v)
    graph = {}
    for e in edges:
        if isinstance(e, str):
            e = json.loads(e)
        node = graph.setdefault((key(e["a"]), key(e["b"])), {})
        node.setdefault((e["m"], key(e["op"])), []).append((e["out"], key(e["v"])))
    schema_text = env.render()

    def fail(kind, what, **kw):
        d = {"check": kind, "what": what, "schema": schema_text, "defs": defs}
        d.update(kw)
        res["fails"].append(d)

    def fresh(av, bv):
        A, B = P.new_message(env, mod, root), P.new_message(env, mod, root)
        build(env, A, t, av)
        build(env, B, t, bv)
        return A, B

    def step(A, B, av, bv, m, op, allowed, kind, history):
        """execute, observe, compare.  Returns the observed (a, b) keys or None on violation."""
        mine, other = (A, B) if m == "a" else (B, A)
        out = execute(env, t, mine, other, op)
        try:
            pa, pb = key(project(env, A, t)), key(project(env, B, t))
        except Exception as e:  # noqa
            fail(kind, "after %s the message cannot be read: %s" % (op["op"], P.exc_text(e)), op=op, m=m, pre_a=av,
                 pre_b=bv, history=history)
            return None
        new_mine, new_other = (pa, pb) if m == "a" else (pb, pa)
        pre_other = key(bv) if m == "a" else key(av)
        if op["op"] == "copy_from":
            pre_other = key(bv) if m == "a" else key(av)
        if new_other != pre_other:
            fail(kind, "operation %s on message %s changed the OTHER message: %s -> %s"
                 % (op["op"], m, pre_other, new_other), op=op, m=m, pre_a=av, pre_b=bv, history=history)
            return None
        if (out, new_mine) not in allowed:
            exp = sorted(set(o for o, _ in allowed))
            fail(kind, "operation %s %s on %s: observed outcome %r and state %s; the reference model allows %s"
                 % (op["op"], json.dumps({k: v for k, v in op.items() if k != "op"}), m, out, new_mine,
                    ["%s -> %s" % x for x in sorted(set(allowed))][:3]),
                 op=op, m=m, pre_a=av, pre_b=bv, observed_out=out, expected_outs=exp, history=history)
            return None
        return pa, pb

    # ---- transition leg
    part_k, part_n = extra.get("replay", (0, 1))
    for ni, ((ak, bk), ops) in enumerate(graph.items()):
        if ni % part_n != part_k:
            continue
        av, bv = json.loads(ak), json.loads(bk)
        for (m, opk), allowed in ops.items():
            op = json.loads(opk)
            res["n_edges"] += 1
            try:
                A, B = fresh(av, bv)
            except Exception as e:  # noqa
                fail("api", "a state of the reference model cannot be built through the API: %s" % P.exc_text(e),
                     pre_a=av, pre_b=bv)
                break
            r = step(A, B, av, bv, m, op, allowed, "api", None)
            if r is not None and op["op"] in ("copy_from", "extendother", "extendself"):
                res["n_probes"] = res.get("n_probes", 0) + 1
                leak = aliasing_probe(env, t, A, B)
                if leak:
                    fail("api", "OTHER message not independent: " + leak, op=op, m=m, pre_a=av, pre_b=bv)
            if r is not None and any(o != "ok" for o, _ in allowed) and any(o == "ok" for o, _ in allowed):
                res["diverged_allowed"] += 1
            if len(res["samples"]) < 2 and op["op"] in ("setslice", "disc", "extend") and r is not None:
                res["samples"].append({"schema": schema_text, "pre_a": av, "op": op, "allowed": sorted(set(allowed))[:2]})
    # ---- history leg: walks on one live pair of messages
    rnd = random.Random(seed_)
    start = (key(_default(env, t)), key(_default(env, t)))
    for _ in range(n_walks):
        if start not in graph:
            break
        cur = start
        A, B = P.new_message(env, mod, root), P.new_message(env, mod, root)
        history = []
        res["n_walks"] += 1
        for _ in range(walk_len):
            ops = graph.get(cur)
            if not ops:
                break
            cands = list(ops.items())
            # prefer operations that change something (or copy)
            good = [c for c in cands if any(o == "ok" and v != (cur[0] if c[0][0] == "a" else cur[1]) for o, v in c[1])
                    or json.loads(c[0][1])["op"] in ("copy_from", "encode")]
            (m, opk), allowed = rnd.choice(good if good and rnd.random() < 0.8 else cands)
            op = json.loads(opk)
            av, bv = json.loads(cur[0]), json.loads(cur[1])
            history.append({"m": m, "op": op})
            r = step(A, B, av, bv, m, op, allowed, "history", list(history))
            res["n_walk_steps"] += 1
            if r is None:
                break
            cur = r
        if len(history) >= 3:
            res["nontrivial"] += 1
    return res


def _default(env, t):
    b = env.base(t)
    if b["k"] == "int":
        return V("s", "0")
    if b["k"] == "flt":
        return V("s", "0.0")
    d = env.d(b["i"])
    if d["k"] == "enum":
        return V("s", "1")
    if d["k"] == "union":
        return V("un", "", [_default(env, d["arms"][0]["t"])], 1)
    out = []
    for j, m in enumerate(d["ms"], 1):
        if m["f"] == "plain":
            out.append(V("sz") if env.is_sizer(d["ms"], j) else _default(env, m["t"]))
        elif m["f"] == "opt":
            out.append(V("none"))
        elif m["t"]["k"] == "byte":
            out.append(V("s", "b0"))
        elif m["f"] == "fixed":
            out.append(V("ar", "", [_default(env, m["t"]) for _ in range(m["n"])]))
        else:
            out.append(V("ar"))
    return V("st", "", out)
