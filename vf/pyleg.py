"""Binding to the Python side of prophy: prophyc (--python_out) and the
generated module's public API.  Runs inside worker processes."""
import importlib.util
import io
import os
import sys
import traceback
import contextlib

from . import schema as S

_counter = [0]


class CompileFailure(Exception):
    def __init__(self, stage, text):
        Exception.__init__(self, "%s: %s" % (stage, text))
        self.stage = stage
        self.text = text


def run_prophyc(argv):
    """prophyc.main in-process; returns (model_nodes, stderr text)."""
    import prophyc
    err = io.StringIO()
    with contextlib.redirect_stderr(err), contextlib.redirect_stdout(io.StringIO()):
        nodes = prophyc.main(argv)
    return nodes, err.getvalue()


def compile_python(text, workdir, stem, extra_argv=(), shift_envs=None):
    """Write `text` as <stem>.prophy, compile with --python_out, import.
    Returns (module, model nodes for this file)."""
    path = os.path.join(workdir, stem + ".prophy")
    with open(path, "w") as f:
        f.write(text)
    try:
        nodes, _ = run_prophyc([path, "--python_out", workdir] + list(extra_argv))
    except BaseException as e:  # noqa
        raise CompileFailure("prophyc", "%s: %s" % (type(e).__name__, str(e)[:2000]))
    if shift_envs:
        patch_shifts(workdir, stem, shift_envs)
    return import_generated(workdir, stem), nodes[stem]


def patch_shifts(workdir, stem, envs):
    """Rewrite the generated module so that the arrays the schema gives a bound
    shift (field n of dyn/ext members) are declared with shift=s - prophyc
    itself never emits the keyword; this is the hand-written-codec feature."""
    import re
    path = os.path.join(workdir, stem + ".py")
    with open(path) as f:
        lines = f.read().split("\n")
    want = {}
    for env in envs:
        for i, d in enumerate(env.defs, 1):
            if d["k"] == "struct":
                for j, m in enumerate(d["ms"], 1):
                    if m["f"] in ("dyn", "ext") and m["n"] > 0:
                        want[(env.name(i), env.mname(i, j))] = m["n"]
    cur, done = None, set()
    for k, line in enumerate(lines):
        mcls = re.match(r"class (\w+)\(", line)
        if mcls:
            cur = mcls.group(1)
            continue
        mfld = re.match(r"\s+\('(\w+)', prophy\.(array|bytes)\((.*)\)\),\s*$", line)
        if mfld and (cur, mfld.group(1)) in want:
            sh = want[(cur, mfld.group(1))]
            lines[k] = line.rstrip()[:-3] + ", shift=%d))," % sh
            done.add((cur, mfld.group(1)))
    if done != set(want):
        raise CompileFailure("patch_shifts", "descriptor lines not found for %r" % sorted(set(want) - done))
    with open(path, "w") as f:
        f.write("\n".join(lines))


def import_generated(workdir, stem):
    _counter[0] += 1
    modname = "vfgen_%d_%d_%s" % (os.getpid(), _counter[0], stem)
    spec = importlib.util.spec_from_file_location(modname, os.path.join(workdir, stem + ".py"))
    mod = importlib.util.module_from_spec(spec)
    try:
        with contextlib.redirect_stdout(io.StringIO()):
            spec.loader.exec_module(mod)
    except BaseException as e:  # noqa
        raise CompileFailure("import", "%s: %s" % (type(e).__name__, str(e)[:2000]))
    return mod


# ---------------------------------------------------------------------------
# value tree -> message (public API only)
# ---------------------------------------------------------------------------
def _num(env, t, le):
    return S.scalar_from_bytes(env.base(t), le)


def _is_scalar(env, t):
    return env.base(t)["k"] in ("int", "flt", "byte")


def _is_enum(env, t):
    b = env.base(t)
    return b["k"] == "ref" and env.d(b["i"])["k"] == "enum"


def _enum_number(env, t, x):
    return env.d(env.base(t)["i"])["vals"][x[1] - 1]


def new_message(env, mod, i):
    return getattr(mod, env.name(i))()


def fill(env, obj, t, value, skip=(), refill=False):
    """Populate composite `obj` of type t from the value tree (members whose
    1-based index is in `skip` are not touched at all).  refill: `obj` already
    holds another value - absent optionals are unset, arrays emptied first."""
    b = env.base(t)
    d = env.d(b["i"])
    if d["k"] == "union":
        _, a, x = value
        arm = d["arms"][a - 1]
        obj.discriminator = arm["d"]
        name = env.aname(a)
        if _is_scalar(env, arm["t"]):
            setattr(obj, name, _num(env, arm["t"], x))
        elif _is_enum(env, arm["t"]):
            setattr(obj, name, _enum_number(env, arm["t"], x))
        else:
            fill(env, getattr(obj, name), arm["t"], x, refill=refill)
        return
    for j, (m, y) in enumerate(zip(d["ms"], value[1]), 1):
        if j in skip:
            continue
        name = env.mname(b["i"], j)
        f, t2 = m["f"], m["t"]
        if f == "plain":
            if env.is_sizer(d["ms"], j):
                continue
            if _is_scalar(env, t2):
                setattr(obj, name, _num(env, t2, y))
            elif _is_enum(env, t2):
                # alternate between the numeric and the symbolic form
                if j % 2:
                    setattr(obj, name, _enum_number(env, t2, y))
                else:
                    setattr(obj, name, env.ename(env.base(t2)["i"], y[1]))
            else:
                fill(env, getattr(obj, name), t2, y, refill=refill)
        elif f == "opt":
            if y is None:
                if refill:
                    setattr(obj, name, None)
                continue
            if _is_scalar(env, t2):
                setattr(obj, name, _num(env, t2, y))
            elif _is_enum(env, t2):
                setattr(obj, name, _enum_number(env, t2, y))
            else:
                setattr(obj, name, True)
                fill(env, getattr(obj, name), t2, y, refill=refill)
        elif t2["k"] == "byte":
            if not y and f != "fixed":
                if refill:
                    setattr(obj, name, b"")
                continue        # an empty bytes field is left at its default
            setattr(obj, name, bytes(e[0] for e in y))
        elif f == "fixed":
            arr = getattr(obj, name)
            for idx, e in enumerate(y):
                if _is_scalar(env, t2):
                    arr[idx] = _num(env, t2, e)
                elif _is_enum(env, t2):
                    arr[idx] = _enum_number(env, t2, e)
                else:
                    fill(env, arr[idx], t2, e, refill=refill)
        else:
            arr = getattr(obj, name)
            if refill:
                del arr[:]
            for e in y:
                if _is_scalar(env, t2):
                    arr.append(_num(env, t2, e))
                elif _is_enum(env, t2):
                    arr.append(_enum_number(env, t2, e))
                else:
                    fill(env, arr.add(), t2, e)


def extract(env, obj, t):
    """Read a composite back into a value tree (public reads only)."""
    b = env.base(t)
    d = env.d(b["i"])
    if d["k"] == "union":
        disc = obj.discriminator
        for a, arm in enumerate(d["arms"], 1):
            if arm["d"] == disc:
                return ("union", a, _extract_val(env, getattr(obj, env.aname(a)), arm["t"]))
        raise ValueError("discriminator %r not in schema" % (disc,))
    out = []
    for j, m in enumerate(d["ms"], 1):
        name = env.mname(b["i"], j)
        f, t2 = m["f"], m["t"]
        if f == "plain":
            if env.is_sizer(d["ms"], j):
                bound = [q for q, mm in enumerate(d["ms"], 1) if mm["f"] in ("ext", "limx") and mm["c"] == j]
                out.append(("len", len(getattr(obj, env.mname(b["i"], bound[0])))))
            else:
                out.append(_extract_val(env, getattr(obj, name), t2))
        elif f == "opt":
            x = getattr(obj, name)
            out.append(None if x is None else _extract_val(env, x, t2))
        elif t2["k"] == "byte":
            raw = getattr(obj, name)
            if isinstance(raw, str):
                # (a dynamic bytes field nobody assigned reads as the str '' - the pinned tests fix that default)
                raw = raw.encode("latin-1")
            out.append([(c,) for c in bytes(raw)])
        else:
            out.append([_extract_val(env, e, t2) for e in getattr(obj, name)])
    return ("struct", out)


def _extract_val(env, x, t):
    b = env.base(t)
    if b["k"] in ("int", "flt", "byte"):
        return S.scalar_to_bytes(b, x)
    d = env.d(b["i"])
    if d["k"] == "enum":
        return ("enum", d["vals"].index(int(x)) + 1)
    return extract(env, x, t)


def exc_text(e):
    return "%s: %s" % (type(e).__name__, str(e)[:300])


def tb_text():
    return traceback.format_exc()[-1500:]
