"""Code -> specification: run the real Python codec on randomly generated
schemas and values, record (schema, walk, images) and let TLC validate the
recorded traces against spec/WireGiven.tla (TSpec)."""
import os
import random
import shutil
import tempfile

from . import schema as S
from . import pyleg as P
from . import gen


def record_worker(seed_, n_schemas, n_values, extra):
    """Returns {"items": [...trace items...], "meta": [...], "fails": [...]}"""
    rnd = random.Random(seed_)
    out = {"items": [], "meta": [], "fails": [], "n_schemas": 0}
    work = tempfile.mkdtemp(prefix="vftr-", dir=extra.get("scratch"))
    try:
        envs = []
        text = ""
        for si in range(n_schemas):
            defs = gen.gen_env(rnd)
            names = ["S%d_%d_T%d" % (seed_, si, i + 1) for i in range(len(defs))]
            env = S.Env(defs, names=names)
            envs.append(env)
            text += env.render() + "\n"
        try:
            mod, _ = P.compile_python(text, work, "t")
            mods = [mod] * len(envs)
        except P.CompileFailure:
            mods = []
            for si, env in enumerate(envs):
                sub = os.path.join(work, "s%d" % si)
                os.mkdir(sub)
                try:
                    m, _ = P.compile_python(env.render(), sub, "t")
                    mods.append(m)
                except P.CompileFailure as e:
                    mods.append(None)
                    out["fails"].append({"check": "accept", "what": "schema not realised by prophyc/python: %s" % e,
                                         "schema": env.render(), "defs": env.defs})
        for env, mod in zip(envs, mods):
            if mod is None:
                continue
            out["n_schemas"] += 1
            root = len(env.defs)
            t = S.Ref(root)
            for _ in range(n_values):
                value = gen.gen_value(rnd, env, t)
                walk = S.value_to_walk(env, t, value)
                try:
                    msg = P.new_message(env, mod, root)
                    P.fill(env, msg, t, value)
                    obsL = msg.encode("<")
                    obsB = msg.encode(">")
                except Exception as e:
                    out["fails"].append({"check": "enc", "what": "API/encode refused an in-range value: %s"
                                         % P.exc_text(e), "schema": env.render(), "defs": env.defs, "walk": walk})
                    continue
                out["items"].append({"env": env.defs, "walk": walk, "obsL": list(obsL), "obsB": list(obsB)})
                out["meta"].append({"schema": env.render(), "names": env.names})
    finally:
        shutil.rmtree(work, ignore_errors=True)
    return out
