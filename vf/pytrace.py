"""Code -> specification: run the real Python codec on randomly generated
schemas and values, record (schema, walk, images) and let TLC validate the
recorded traces against spec/WireGiven.tla (TSpec)."""
import os
import random
import shutil
import tempfile

from . import schema as S
from . import pyleg as P
from . import gen


def record_worker(seed_, n_schemas, n_values, extra):
    """Returns {"items": [...trace items...], "meta": [...], "fails": [...]}"""
    rnd = random.Random(seed_)
    out = {"items": [], "meta": [], "fails": [], "n_schemas": 0}
    work = tempfile.mkdtemp(prefix="vftr-", dir=extra.get("scratch"))
    try:
        envs = []
        text = ""
        for si in range(n_schemas):
            defs = gen.gen_env(rnd)
            if si % 3 == 2:
                gen.assign_shifts(rnd, defs)      # bound shifts: the hand-written-codec feature
            names = ["S%d_%d_T%d" % (seed_, si, i + 1) for i in range(len(defs))]
            env = S.Env(defs, names=names)
            envs.append(env)
            text += env.render() + "\n"
        try:
            mod, _ = P.compile_python(text, work, "t", shift_envs=envs)
            mods = [mod] * len(envs)
        except P.CompileFailure:
            mods = []
            for si, env in enumerate(envs):
                sub = os.path.join(work, "s%d" % si)
                os.mkdir(sub)
                try:
                    m, _ = P.compile_python(env.render(), sub, "t", shift_envs=[env])
                    mods.append(m)
                except P.CompileFailure as e:
                    mods.append(None)
                    out["fails"].append({"check": "accept", "what": "schema not realised by prophyc/python: %s" % e,
                                         "schema": env.render(), "defs": env.defs})
        for env, mod in zip(envs, mods):
            if mod is None:
                continue
            out["n_schemas"] += 1
            root = len(env.defs)
            t = S.Ref(root)
            # the message nobody has touched: encoded first, read (through the public API) afterwards
            value0 = None
            try:
                msg = P.new_message(env, mod, root)
                obsL, obsB = msg.encode("<"), msg.encode(">")
                value0 = P.extract(env, msg, t)
                out["items"].append({"env": env.defs, "walk": S.value_to_walk(env, t, value0), "obsL": list(obsL), "obsB": list(obsB)})
                out["meta"].append({"schema": env.render(), "names": env.names, "untouched": True})
            except Exception as e:
                out["fails"].append({"check": "enc", "what": "a message nothing was assigned to cannot be encoded and read: %s"
                                     % P.exc_text(e), "schema": env.render(), "defs": env.defs, "walk": []})
            rd = env.d(root)
            nested = [j for j, m in enumerate(rd["ms"], 1) if m["f"] == "plain" and env.base(m["t"])["k"] == "ref"
                      and env.d(env.base(m["t"])["i"])["k"] in ("struct", "union")] if rd["k"] == "struct" else []
            live = None
            for vi in range(n_values):
                value = gen.gen_value(rnd, env, t)
                skip = ()
                if nested and value0 is not None and vi % 2 == 1:
                    # every other value leaves some nested composites untouched: they keep their defaults
                    skip = tuple(j for j in nested if rnd.random() < 0.6) or (nested[0],)
                    value = ("struct", [value0[1][j - 1] if j in skip else y for j, y in enumerate(value[1], 1)])
                walk = S.value_to_walk(env, t, value)
                try:
                    if vi % 3 == 2 and live is not None:
                        # every third value is assigned to the message that was encoded a moment ago (holding the
                        # previous value): the encoding follows the current value
                        msg = live
                        P.fill(env, msg, t, value, refill=True)
                    else:
                        msg = P.new_message(env, mod, root)
                        P.fill(env, msg, t, value, skip=skip)
                    live = None
                    obsL = msg.encode("<")
                    obsB = msg.encode(">")
                    live = msg
                except Exception as e:
                    out["fails"].append({"check": "enc", "what": "API/encode refused an in-range value: %s"
                                         % P.exc_text(e), "schema": env.render(), "defs": env.defs, "walk": walk})
                    continue
                out["items"].append({"env": env.defs, "walk": walk, "obsL": list(obsL), "obsB": list(obsB)})
                out["meta"].append({"schema": env.render(), "names": env.names})
    finally:
        shutil.rmtree(work, ignore_errors=True)
    return out


# ---------------------------------------------------------------------------
# decode recording: random schemas x (canonical images and arbitrary mutations)
# ---------------------------------------------------------------------------
class _Timeout(Exception):
    pass


def _alarm(signum, frame):
    raise _Timeout()


def mutations(rnd, img, n_mut):
    """Arbitrary inputs derived from a canonical image: truncations, byte and
    word substitutions, extensions, and unrelated random strings."""
    out = [("canon", img)]
    n = len(img)
    if n <= 24:
        out += [("prefix", img[:k]) for k in range(n)]       # short images: every prefix
        # ... and every byte with its top bit set (the sign bit of whichever signed field or counter it ends)
        out += [("sign", img[:k] + bytes([img[k] | 0x80]) + img[k + 1:]) for k in range(n) if img[k] < 0x80]
    for _ in range(n_mut):
        r = rnd.random()
        b = bytearray(img)
        if r < 0.25 and n:
            out.append(("trunc", bytes(b[:rnd.randrange(n)])))
        elif r < 0.55 and n:
            p = rnd.randrange(n)
            b[p] = rnd.choice([0, 1, 2, 3, 127, 128, 255, rnd.randrange(256)])
            out.append(("byte", bytes(b)))
        elif r < 0.75 and n >= 4:
            p = 4 * rnd.randrange(n // 4)
            v = rnd.choice([0, 1, 2, 3, 5, 255, 256, 65535, 65536, 0x7fffffff, 0xffffffff])
            b[p:p + 4] = v.to_bytes(4, rnd.choice(["little", "big"]))
            out.append(("word", bytes(b)))
        elif r < 0.80 and n >= 8:
            p = 8 * rnd.randrange(n // 8)
            v = rnd.choice([2 ** 64 - 1, 0xFFFFFFFF00000002, 2 ** 63, 2 ** 63 + 1, 2 ** 32, 2 ** 61 + 1])
            b[p:p + 8] = v.to_bytes(8, rnd.choice(["little", "big"]))
            out.append(("qword", bytes(b)))
        elif r < 0.87:
            out.append(("ext", bytes(b) + bytes(rnd.randrange(256) for _ in range(rnd.randint(1, 5)))))
        elif r < 0.94 and n >= 2:
            p = rnd.randrange(n - 1)
            q = rnd.randrange(p + 1, n)
            out.append(("cut", bytes(b[:p] + b[q:])))
        else:
            out.append(("random", bytes(rnd.choice([0, 0, 1, 2, 255, rnd.randrange(256)])
                                        for _ in range(rnd.randint(0, n + 4)))))
    return out


def decode_worker(seed_, n_schemas, n_values, n_mut, extra):
    """Decode canonical and mutated inputs with the real Python codec and
    record what happened.  Returns {"records": [...], "fails": [...]}; a
    record: {env, names, schema, inp, ord, kind, outcome, exc, walk, reenc,
    fix (fixpoint problem text or None), peak}."""
    import signal
    import tracemalloc
    import prophy
    rnd = random.Random(seed_)
    out = {"records": [], "fails": [], "n_schemas": 0}
    work = tempfile.mkdtemp(prefix="vfdr-", dir=extra.get("scratch"))
    from .common import watchdog_install
    watchdog_install(_alarm)
    tracemalloc.start()
    try:
        for si in range(n_schemas):
            defs = gen.gen_env_shared_sizer(rnd) if si % 4 == 1 else gen.gen_env(rnd)
            if si % 3 == 2:
                gen.assign_shifts(rnd, defs)
            names = ["D%d_%d_T%d" % (seed_, si, i + 1) for i in range(len(defs))]
            env = S.Env(defs, names=names)
            sub = os.path.join(work, "s%d" % si)
            os.mkdir(sub)
            try:
                mod, _ = P.compile_python(env.render(), sub, "t", shift_envs=[env])
            except P.CompileFailure as e:
                out["fails"].append({"check": "accept", "what": "schema not realised by prophyc/python: %s" % e,
                                     "schema": env.render(), "defs": env.defs})
                continue
            out["n_schemas"] += 1
            root = len(env.defs)
            t = S.Ref(root)
            for _ in range(n_values):
                value = gen.gen_value(rnd, env, t)
                try:
                    msg = P.new_message(env, mod, root)
                    P.fill(env, msg, t, value)
                    images = {"L": msg.encode("<"), "B": msg.encode(">")}
                except Exception:
                    continue        # the encode-side trace leg reports this
                for o in ("L", "B"):
                    for kind, data in mutations(rnd, images[o], n_mut):
                        out["records"].append(_decode_one(env, mod, root, t, data, o, kind, prophy, signal, tracemalloc))
                # the other byte order's image, read with this one
                out["records"].append(_decode_one(env, mod, root, t, images["B"], "L", "cross", prophy, signal, tracemalloc))
    finally:
        tracemalloc.stop()
        shutil.rmtree(work, ignore_errors=True)
    return out


def _decode_one(env, mod, root, t, data, o, kind, prophy, signal, tracemalloc):
    order = "<" if o == "L" else ">"
    rec = {"env": env.defs, "names": env.names, "inp": list(data), "ord": o, "kind": kind,
           "outcome": None, "exc": "", "walk": None, "reenc": None, "fix": None, "consumed": None}
    fresh = P.new_message(env, mod, root)
    tracemalloc.reset_peak()
    base = tracemalloc.get_traced_memory()[0]
    from .common import watchdog_start, watchdog_stop
    watchdog_start(5)
    try:
        try:
            rec["consumed"] = fresh.decode(data, order)
            rec["outcome"] = "return"
        except prophy.ProphyError as e:
            rec["outcome"] = "ProphyError"
            rec["exc"] = str(e)[:200]
        except _Timeout:
            rec["outcome"] = "timeout"
        except BaseException as e:  # noqa
            rec["outcome"] = "other"
            rec["exc"] = P.exc_text(e)
    finally:
        watchdog_stop()
    rec["peak"] = tracemalloc.get_traced_memory()[1] - base
    if rec["outcome"] != "return":
        return rec
    try:
        enc = fresh.encode(order)
    except Exception as e:
        rec["fix"] = "the decoded message does not encode: %s" % P.exc_text(e)
        return rec
    rec["reenc"] = list(enc)
    try:
        v1 = P.extract(env, fresh, t)
        rec["walk"] = S.value_to_walk(env, t, v1)
    except Exception as e:
        rec["fix"] = "the decoded message cannot be read back through the API: %s" % P.exc_text(e)
        return rec
    again = P.new_message(env, mod, root)
    try:
        again.decode(enc, order)
        v2 = P.extract(env, again, t)
        enc2 = again.encode(order)
        if v1 != v2 or enc != enc2:
            rec["fix"] = "not a fixpoint: %s -> %s, %r -> %r" % (enc.hex(), enc2.hex(), v1, v2)
    except Exception as e:
        rec["fix"] = "decoding its re-encoding %s failed: %s" % (enc.hex(), P.exc_text(e))
    return rec
