"""Worker: replay specification vectors into the real Python codec."""
import os
import shutil
import tempfile

from . import schema as S
from . import pyleg as P
from . import shadows
from .wire import make_env


def _hex(b):
    return bytes(b).hex()


def compile_batch(inner_defs, groups, workdir, stem, argv=()):
    """Render inner + all groups' constructed types into one file and compile.
    Returns (module, nodes, envs)."""
    envs = {g["gid"]: make_env(inner_defs, g) for g in groups}
    ninner = len(inner_defs)
    first = next(iter(envs.values()))
    text = first.render(range(1, ninner + 1))
    for g in groups:
        e = envs[g["gid"]]
        text += "\n" + e.render(range(ninner + 1, len(e.defs) + 1))
    mod, nodes = P.compile_python(text, workdir, stem, argv)
    return mod, nodes, envs, text


def worker(inner_defs, groups, extra):
    checks = set(extra["checks"])
    res = {"fails": [], "n_vec": 0, "n_groups": 0, "nontrivial": [], "samples": [], "n_checked": {}}
    work = tempfile.mkdtemp(prefix="vfpy-", dir=extra.get("scratch"))
    try:
        try:
            mod, nodes, envs, text = compile_batch(inner_defs, groups, work, "b")
            good = [(g, mod, nodes, envs[g["gid"]]) for g in groups]
        except P.CompileFailure:
            # isolate: one file per group
            good = []
            for g in groups:
                sub = os.path.join(work, "g%s" % g["gid"])
                os.mkdir(sub)
                try:
                    m, n, es, text = compile_batch(inner_defs, [g], sub, "b")
                    good.append((g, m, n, es[g["gid"]]))
                except P.CompileFailure as e:
                    env = make_env(inner_defs, g)
                    res["fails"].append({"check": "accept", "gid": g["gid"], "stage": e.stage,
                                         "what": "legal schema not realised by prophyc/python: %s" % e,
                                         "schema": env.render(range(len(inner_defs) + 1, len(env.defs) + 1)),
                                         "cons": g["cons"], "inner": g["inner"]})
        for g, mod, nodes, env in good:
            res["n_groups"] += 1
            root = len(env.defs)
            if "layout" in checks:
                check_layout(env, mod, nodes, g, res)
                check_layout_multifile(env, g, work, res)
            for vec in g["vectors"]:
                res["n_vec"] += 1
                check_vector(env, mod, root, vec, g, checks, res)
    finally:
        shutil.rmtree(work, ignore_errors=True)
    return res


def _fail(res, check, env, g, vec, what, **kw):
    res["fails"].append(_mk_fail(check, env, g, vec, what, **kw))


def _mk_fail(check, env, g, vec, what, **kw):
    ninner = len(env.defs) - len(g["cons"])
    d = {"check": check, "gid": g["gid"], "what": what, "inner": g["inner"], "cons": g["cons"],
         "schema": env.render(range(ninner + 1, len(env.defs) + 1))}
    if vec is not None:
        d["walk"] = vec["walk"]
        if "outL" in vec:
            d["outL"] = _hex(vec["outL"])
    d["inner_defs"] = env.defs[:ninner]
    d["features"] = shadows.features(env, len(env.defs), g.get("lay"))
    d.update(kw)
    return d


def check_vector(env, mod, root, vec, g, checks, res):
    t = S.Ref(root)
    try:
        value = S.walk_to_value(env, t, vec["walk"])
    except S.WalkError as e:
        raise RuntimeError("harness/spec mismatch in walk: %s" % e)
    outL, outB = bytes(vec["outL"]), bytes(vec["outB"])
    if any(r == "p" for r in vec.get("role", ())) or env.d(root)["ms"] and len(vec["walk"]) > 1:
        res["nontrivial"].append(g["gid"])
    try:
        msg = P.new_message(env, mod, root)
        P.fill(env, msg, t, value)
    except Exception as e:  # the API refused an assignable value
        if "enc" in checks:
            _fail(res, "enc", env, g, vec, "building the value through the API failed: %s" % P.exc_text(e))
        return
    enc = {}
    for order, want in (("<", outL), (">", outB)):
        try:
            enc[order] = msg.encode(order)
        except Exception as e:
            enc[order] = None
            if "enc" in checks:
                _fail(res, "enc", env, g, vec, "encode(%r) raised %s" % (order, P.exc_text(e)))
            continue
        if "enc" in checks and enc[order] != want:
            _fail(res, "enc", env, g, vec,
                  "encode(%r) = %s, specification says %s" % (order, enc[order].hex(), want.hex()),
                  order=order, got=enc[order].hex(), want=want.hex())
    if "enc" in checks:
        res["n_checked"]["enc"] = res["n_checked"].get("enc", 0) + 1
    if "mirror" in checks and enc["<"] is not None and enc[">"] is not None:
        check_mirror(env, g, vec, enc["<"], enc[">"], outL, outB, res)
    if "print" in checks:
        res["n_checked"]["print"] = res["n_checked"].get("print", 0) + 1
        try:
            got = str(msg)
        except Exception as e:
            got = None
            _fail(res, "print", env, g, vec, "str(message) raised %s" % P.exc_text(e))
        if got is not None and got != vec["text"]:
            _fail(res, "print", env, g, vec, "python str() = %r, specification text %r" % (got, vec["text"]))
    if "dec" in checks and vec["gta"]:
        res["n_checked"]["dec"] = res["n_checked"].get("dec", 0) + 1
        for order, data in (("<", outL), (">", outB)):
            check_decode(env, mod, root, t, value, g, vec, order, data, res)
    if len(res["samples"]) < 2 and len(vec["walk"]) > 2:
        ninner = len(env.defs) - len(g["cons"])
        res["samples"].append({"schema": env.render(range(ninner + 1, len(env.defs) + 1)),
                               "walk": [[e["e"], e["n"], e["v"]] for e in vec["walk"]],
                               "little": outL.hex(), "big": outB.hex()})


def check_decode(env, mod, root, t, value, g, vec, order, data, res):
    # every other decode goes into a message that already holds ANOTHER value of the schema (the previous
    # vector's): decoding replaces the whole value, whatever the target held
    populated = (res["n_vec"] + (order == ">")) % 2 == 1
    prev = g.get("_prev_value")
    if order == ">":
        g["_prev_value"] = value
    try:
        fresh = P.new_message(env, mod, root)
        if prev is not None and prev != value and populated:
            try:
                P.fill(env, fresh, t, prev)
                res["n_checked"]["dec_into_populated"] = res["n_checked"].get("dec_into_populated", 0) + 1
            except Exception:  # noqa  (the encode leg reports values the API refuses)
                fresh = P.new_message(env, mod, root)
        n = fresh.decode(data, order)
    except Exception as e:
        _fail(res, "dec", env, g, vec, "decode(%s, %r) of a canonical encoding raised %s"
              % (data.hex(), order, P.exc_text(e)), order=order)
        return
    if n != len(data):
        _fail(res, "dec", env, g, vec, "decode(%r) consumed %r of %d bytes" % (order, n, len(data)), order=order)
    try:
        back = P.extract(env, fresh, t)
    except Exception as e:
        _fail(res, "dec", env, g, vec, "reading the decoded message failed: %s" % P.exc_text(e), order=order)
        return
    if back != value:
        _fail(res, "dec", env, g, vec, "decode(%r) yields %r, encoded value was %r" % (order, back, value),
              order=order)
    try:
        again = fresh.encode(order)
    except Exception as e:
        _fail(res, "dec", env, g, vec, "re-encode raised %s" % P.exc_text(e), order=order)
        return
    if again != data:
        _fail(res, "dec", env, g, vec, "re-encode(%r) = %s, input was %s" % (order, again.hex(), data.hex()),
              order=order)


def scalar_extents(vec):
    """(start, width) of every multi-byte scalar item, from the spec's roles:
    consecutive positions belong to one item; the spec emits role kinds per
    byte and the walk/out give widths.  We recover extents by comparing outL
    with outB is NOT allowed (would be circular); instead the spec dumps
    `wid` - the width of the item each byte belongs to."""
    ext, p, n = [], 0, len(vec["role"])
    while p < n:
        w = vec["wid"][p]
        if vec["role"][p] != "p" and w > 1:
            ext.append((p, w))
        p += w if vec["role"][p] != "p" else 1
    return ext


def apply_mirror(data, ext):
    out = bytearray(data)
    for start, w in ext:
        out[start:start + w] = bytes(data[start:start + w])[::-1]
    return bytes(out)


def check_mirror(env, g, vec, encL, encB, outL, outB, res):
    res["n_checked"]["mirror"] = res["n_checked"].get("mirror", 0) + 1
    if len(encL) != len(encB):
        _fail(res, "mirror", env, g, vec, "little-endian encoding has %d bytes, big-endian %d" % (len(encL), len(encB)))
        return
    ext = scalar_extents(vec)
    pads = [p for p, r in enumerate(vec["role"]) if r == "p"]
    if encL == outL:
        if encB != apply_mirror(encL, ext):
            _fail(res, "mirror", env, g, vec, "big-endian %s is not the scalar-wise mirror of little-endian %s"
                  % (encB.hex(), encL.hex()))
    elif encB == outB:
        _fail(res, "mirror", env, g, vec, "little-endian %s is not the scalar-wise mirror of big-endian %s"
              % (encL.hex(), encB.hex()))
    elif len(encL) == len(outL):
        # both deviate from the canonical image; only claim a C19 violation
        # when the deviation is confined to padding positions
        nonpad_ok = all(encL[p] == outL[p] for p in range(len(outL)) if vec["role"][p] != "p")
        if nonpad_ok and any(encL[p] != 0 or encB[p] != 0 for p in pads):
            _fail(res, "mirror", env, g, vec, "non-zero padding byte: %s / %s" % (encL.hex(), encB.hex()))
        elif sorted(encL) != sorted(encB):
            _fail(res, "mirror", env, g, vec, "byte orders differ by more than a permutation: %s / %s"
                  % (encL.hex(), encB.hex()))
    elif sorted(encL) != sorted(encB):
        _fail(res, "mirror", env, g, vec, "byte orders differ by more than a permutation: %s / %s"
              % (encL.hex(), encB.hex()))


KIND_OF = {(False, False): 0, (True, False): 1, (True, True): 2, (False, True): 2}


def check_layout(env, mod, nodes, g, res):
    """C04 (Python leg): spec Layout vs prophyc model numbers vs runtime statics."""
    lay = g["lay"]
    ninner = len(env.defs) - len(g["cons"])
    by_name = {}
    for n in nodes:
        by_name[n.name] = n
    for i in list(range(ninner + 1, len(env.defs) + 1)) + (list(range(1, ninner + 1)) if g.get("check_inner") else []):
        d = env.d(i)
        if d["k"] not in ("struct", "union"):
            continue
        want = lay[i - 1]
        name = env.name(i)
        res["n_checked"]["layout"] = res["n_checked"].get("layout", 0) + 1
        node = by_name.get(name)
        if node is None:
            _fail(res, "layout", env, g, None, "type %s missing from prophyc's model" % name)
            continue
        if node.alignment != want["align"]:
            _fail(res, "layout", env, g, None, "prophyc model alignment of %s is %r, layout rules give %d"
                  % (name, node.alignment, want["align"]), type=name)
        if node.kind != want["kind"]:
            _fail(res, "layout", env, g, None, "prophyc model stiffness of %s is %r, rules give %d"
                  % (name, node.kind, want["kind"]), type=name)
        if want["kind"] == 0 and node.byte_size != want["size"]:
            _fail(res, "layout", env, g, None, "prophyc model size of fixed %s is %r, rules give %d"
                  % (name, node.byte_size, want["size"]), type=name)
        cls = getattr(mod, name)
        pk = KIND_OF[(bool(cls._DYNAMIC), bool(cls._UNLIMITED))]
        if cls._ALIGNMENT != want["align"]:
            _fail(res, "layout", env, g, None, "python _ALIGNMENT of %s is %r, rules give %d"
                  % (name, cls._ALIGNMENT, want["align"]), type=name)
        if pk != want["kind"]:
            _fail(res, "layout", env, g, None, "python stiffness of %s is %d (_DYNAMIC=%r _UNLIMITED=%r), rules give %d"
                  % (name, pk, cls._DYNAMIC, cls._UNLIMITED, want["kind"]), type=name)
        if want["kind"] == 0 and cls._SIZE != want["size"]:
            _fail(res, "layout", env, g, None, "python _SIZE of fixed %s is %r, rules give %d"
                  % (name, cls._SIZE, want["size"]), type=name)


def check_layout_multifile(env, g, work, res):
    """C04: the same definitions spread over a chain of included files.  The
    layout of a type does not depend on which file declares it, nor on how many
    times prophyc walks over an included file's nodes (once per includer)."""
    from . import compleg as CL
    lay = g["lay"]
    n = len(env.defs)
    if n < 2:
        return
    cuts = sorted(set([max(1, n // 3), max(1, (2 * n) // 3)]))
    bounds = [0] + cuts + [n]
    sub = tempfile.mkdtemp(prefix="mf-", dir=work)
    files = []
    for k in range(len(bounds) - 1):
        idx = range(bounds[k] + 1, bounds[k + 1] + 1)
        if not len(idx):
            continue
        stem = "f%d" % len(files)
        # (a file sees the definitions of the files it includes directly, not those of their includes)
        text = "".join('#include "%s.prophy"\n' % x for x in files) + env.render(idx)
        with open(os.path.join(sub, stem + ".prophy"), "w") as f:
            f.write(text)
        files.append(stem)
    out = os.path.join(sub, "out")
    os.mkdir(out)
    status, nodes, _ = CL.run_main([os.path.join(sub, files[-1] + ".prophy"), "-I", sub, "--python_out", out])
    res["n_checked"]["layout_multifile"] = res["n_checked"].get("layout_multifile", 0) + 1
    if status != "ok":
        _fail(res, "layout", env, g, None, "the schema spread over %d included files is not compiled: %s" % (len(files), nodes))
        return
    by_name = {}

    def flat(ns):
        for x in ns:
            if type(x).__name__ == "Include":
                flat(x.members)
            else:
                by_name[x.name] = x
    flat(nodes[files[-1]])
    for i in range(1, n + 1):
        d = env.d(i)
        if d["k"] not in ("struct", "union"):
            continue
        want, name = lay[i - 1], env.name(i)
        node = by_name.get(name)
        if node is None:
            _fail(res, "layout", env, g, None, "type %s missing from prophyc's model of the multi-file schema" % name)
            continue
        got = (node.alignment, node.kind, node.byte_size if want["kind"] == 0 else None)
        exp = (want["align"], want["kind"], want["size"] if want["kind"] == 0 else None)
        if got != exp:
            _fail(res, "layout", env, g, None, "with the definitions spread over %d included files prophyc's model gives %s "
                  "(alignment, stiffness, fixed size) = %r, layout rules give %r" % (len(files), name, got, exp), type=name)
    shutil.rmtree(sub, ignore_errors=True)


# ---------------------------------------------------------------------------
# C06: faulted inputs
# ---------------------------------------------------------------------------
class _Timeout(Exception):
    pass


def _alarm(signum, frame):
    raise _Timeout()


def fault_worker(inner_defs, groups, extra):
    import signal
    import tracemalloc
    import prophy
    res = {"fails": [], "n_vec": 0, "n_groups": 0, "nontrivial": [], "samples": [], "n_checked": {},
           "outcomes": {}}
    work = tempfile.mkdtemp(prefix="vfpy-", dir=extra.get("scratch"))
    from .common import watchdog_install, watchdog_start, watchdog_stop
    watchdog_install(_alarm)
    tracemalloc.start()
    try:
        try:
            mod, nodes, envs, text = compile_batch(inner_defs, groups, work, "b")
        except P.CompileFailure as e:
            raise RuntimeError("legal schemas failed to compile (C12's business): %s" % e)
        for g in groups:
            env = envs[g["gid"]]
            root = len(env.defs)
            t = S.Ref(root)
            res["n_groups"] += 1
            for vec in g["vectors"]:
                res["n_vec"] += 1
                data = bytes(vec["inp"])
                order = "<" if vec["ord"] == "L" else ">"
                fresh = P.new_message(env, mod, root)
                tracemalloc.reset_peak()
                base = tracemalloc.get_traced_memory()[0]
                watchdog_start(5)
                outcome = None
                try:
                    try:
                        fresh.decode(data, order)
                        outcome = "return"
                    except prophy.ProphyError:
                        outcome = "ProphyError"
                    except _Timeout:
                        outcome = "timeout"
                    except BaseException as e:  # noqa
                        outcome = "other"
                        _fail(res, "total", env, g, vec, "decode(%s, %r) raised %s (not ProphyError)"
                              % (data.hex(), order, P.exc_text(e)), order=order, inp=data.hex(), fault=vec["fault"])
                finally:
                    watchdog_stop()
                peak = tracemalloc.get_traced_memory()[1] - base
                if outcome == "timeout":
                    _fail(res, "total", env, g, vec, "decode(%s, %r) did not terminate within 5 s of CPU time"
                          % (data.hex(), order), order=order, inp=data.hex(), fault=vec["fault"])
                if peak > 64 * len(data) + (1 << 20):
                    _fail(res, "total", env, g, vec, "decode(%s, %r) allocated %d bytes for %d input bytes"
                          % (data.hex()[:80], order, peak, len(data)), order=order, inp=data.hex(), fault=vec["fault"])
                key = "%s/%s/spec-%s" % (vec["fault"][0], outcome, vec["verdict"])
                res["outcomes"][key] = res["outcomes"].get(key, 0) + 1
                if vec["fault"][0] != "none":
                    res["nontrivial"].append("%s:%s" % (g["gid"], data.hex()))
                if outcome == "return":
                    _check_fixpoint(env, mod, root, t, fresh, g, vec, order, data, res)
                if len(res["samples"]) < 2 and vec["fault"][0] == "ctl":
                    ninner = len(env.defs) - len(g["cons"])
                    res["samples"].append({"schema": env.render(range(ninner + 1, len(env.defs) + 1)),
                                           "fault": vec["fault"], "order": order, "input": data.hex(),
                                           "python": outcome, "spec_decoder": vec["verdict"] + " " + vec["reason"]})
    finally:
        tracemalloc.stop()
        shutil.rmtree(work, ignore_errors=True)
    return res


def _check_fixpoint(env, mod, root, t, fresh, g, vec, order, data, res):
    kw = dict(order=order, inp=data.hex(), fault=vec["fault"])
    try:
        enc = fresh.encode(order)
    except Exception as e:
        _fail(res, "total", env, g, vec, "decode(%s, %r) returned but the message does not encode: %s"
              % (data.hex(), order, P.exc_text(e)), **kw)
        return
    try:
        v1 = P.extract(env, fresh, t)
    except Exception as e:
        _fail(res, "total", env, g, vec, "decode(%s, %r) returned but the message cannot be read: %s"
              % (data.hex(), order, P.exc_text(e)), **kw)
        return
    again = P.new_message(env, mod, root)
    problem = None
    try:
        again.decode(enc, order)
        v2 = P.extract(env, again, t)
        enc2 = again.encode(order)
        if v1 != v2 or enc != enc2:
            problem = "decode(%s, %r) returned; not a fixpoint: %s -> %s, %r -> %r" % (
                data.hex(), order, enc.hex(), enc2.hex(), v1, v2)
    except Exception as e:
        problem = "decode(%s, %r) returned; decoding its re-encoding %s failed: %s" % (
            data.hex(), order, enc.hex(), P.exc_text(e))
    if problem is None:
        return
    if vec["rkind"] == 2:
        # Unlimited root: whether the fixpoint is owed depends on the decoded
        # message's greedy tail ending aligned (C02's documented exception).
        # That is the specification's call: the orchestrator lets TLC encode
        # the decoded walk (trace validation) and reads GreedyTailAligned.
        res.setdefault("pending", []).append({
            "item": {"env": env.defs, "walk": S.value_to_walk(env, t, v1),
                     "obsL": list(enc) if order == "<" else [], "obsB": list(enc) if order == ">" else []},
            "order": order,
            "fail": _mk_fail("total", env, g, vec, problem, **kw)})
        return
    _fail(res, "total", env, g, vec, problem, **kw)
