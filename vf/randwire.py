"""Random-schema legs for the C++ full codec: schemas and values drawn by
vf/gen.py, canonical images computed by the SPECIFICATION (WireGiven!TSpec
with nothing observed), arbitrary mutations of them judged by the reference
decoder (WireDecGiven), everything replayed into the generated C++ codec."""
import random

from . import gen, wire, pytrace, cppwire
from . import schema as S
from .common import seed


class _VS:
    """Just enough of a vector set for wire.run_batches."""
    def __init__(self):
        self.inner = {"given": []}


def draw(tier, salt, n_quick=80, n_thorough=1000, n_values=3):
    rnd = random.Random(seed() * 7919 + salt)
    n = n_quick if tier == "quick" else n_thorough
    envs, items, owner = [], [], []
    while len(envs) < n:
        # one schema in four comes from the family aimed at externally sized
        # arrays whose sizer lives in an earlier part
        # and one in four from the fixed-roles family (nested dynamic elements, typedefs, odd unions)
        # one in four from the blocks family (partial padding: optionals / arrays / scalars of mixed alignment
        # in the block after a dynamic field)
        # one in five from the tails family (a struct ending in an unlimited struct)
        k = len(envs) % 5
        defs = gen.gen_env_sizers(rnd) if k == 3 else gen.gen_env_roles(rnd) if k == 1 else gen.gen_env_blocks(rnd) if k == 2 \
            else gen.gen_env_tails(rnd) if k == 4 else gen.gen_env(rnd)
        env = S.Env(defs)
        if not cppwire.cpp_full_accepts(env):
            continue
        t = S.Ref(len(defs))
        values = [gen.gen_value(rnd, env, t, max_len=4) for _ in range(n_values)]
        if k == 4:
            # the tails family: the same values with tails of 1, 2, 3, 4 and 7 elements - some of them end aligned
            values += [v for v in (gen.with_tail_len(rnd, env, t, values[q % n_values], q) for q in (1, 2, 3, 4, 7)) if v is not None]
        for value in values:
            items.append({"env": defs, "walk": S.value_to_walk(env, t, value), "obsL": [], "obsB": []})
            owner.append(len(envs))
        envs.append(defs)
    return rnd, envs, items, owner


def canonical_groups(tier, salt, **kw):
    """-> (groups with canonical vectors, tlc stats)"""
    rnd, envs, items, owner = draw(tier, salt, **kw)
    verdicts, illegal, st = wire.validate_traces(items)
    if illegal:
        raise wire.MachineryError("generator produced environments the specification calls illegal")
    groups = [{"gid": "r%d" % i, "inner": "given", "cons": defs, "lay": None, "vectors": [], "pinned": False}
              for i, defs in enumerate(envs)]
    for it, o, v in zip(items, owner, verdicts):
        if v is None:
            raise wire.MachineryError("generated walk is not a behaviour of the specification: %r" % (it,))
        groups[o]["vectors"].append({"walk": it["walk"], "outL": v["outL"], "outB": v["outB"], "gta": v["gta"],
                                     "inner": "given", "env": it["env"], "rkind": v["kind"], "ust": v["ust"]})
    return rnd, groups, [st]


def raw_groups(tier, salt):
    """canonical groups plus the layout and raw offset tables (LayoutGiven)"""
    rnd, groups, stats = canonical_groups(tier, salt)
    lays, st = wire.layout_of([g["cons"] for g in groups])
    stats.append(st)
    for g, l in zip(groups, lays):
        g["lay"] = l["lay"]
        for v in g["vectors"]:
            v["lay"], v["raw"] = l["lay"], l["raw"]
    return groups, stats


def fault_groups(tier, salt, n_mut_quick=6, n_mut_thorough=12):
    """-> (groups with arbitrary inputs as fault vectors, stats)"""
    rnd, groups, stats = canonical_groups(tier, salt, n_quick=32)
    n_mut = n_mut_quick if tier == "quick" else n_mut_thorough
    items = []
    for g in groups:
        vecs = []
        for v in g["vectors"]:
            for o, img in (("L", v["outL"]), ("B", v["outB"])):
                muts = [m for m in pytrace.mutations(rnd, bytes(img), n_mut) if m[0] != "canon"]
                # systematic: every 8-aligned word replaced by all ones / a huge count (64-bit counters and sizers)
                img_b = bytes(img)
                for p in range(0, len(img_b) - 7, 8):
                    for val in (2 ** 64 - 1, 0xFFFFFFFF00000002):
                        muts.append(("q64", img_b[:p] + val.to_bytes(8, "little" if o == "L" else "big") + img_b[p + 8:]))
                for kind, data in muts:
                    vecs.append({"inp": list(data), "ord": o, "fault": [kind, 0, 0], "inner": "given",
                                 "env": g["cons"], "walk": v["walk"], "rkind": v["rkind"]})
        g["vectors"] = vecs
        items += [{"env": g["cons"], "inp": x["inp"], "ord": x["ord"]} for x in vecs]
    dv, st = wire.decide_decodes(items)
    stats.append(st)
    k = 0
    for g in groups:
        for x in g["vectors"]:
            x["verdict"], x["reason"] = dv[k]["verdict"], dv[k]["reason"]
            k += 1
    return groups, stats
