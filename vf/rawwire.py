"""Worker: the generated raw C++ codec (--cpp_out): struct layout tables
(C08) and in-place endianness swap (C09)."""
import os
import shutil
import subprocess
import tempfile

from . import schema as S
from . import cppleg as C
from . import pyleg as P
from .pywire import _fail
from .wire import make_env
from .cppwire import render_batch

RAW_FLAGS = ["-std=c++11", "-O0", "-g1", "-fsanitize=address,undefined", "-fno-sanitize-recover=all"]


def member_names(env, d, part):
    """C++ field names of a layout part (r, j) -> list of (field, delta)
    delta = offset relative to the part's offset, None -> computed by caller"""
    return None


def gen_raw_driver(envs, groups, ninner, stem, with_swap=True):
    src = ['#include "%s.pp.hpp"' % stem, '#include <stddef.h>', '#include "raw_driver.hpp"',
           "void print_tables() {"]
    seen = set()
    expect = {}   # (type, scope, field) -> expected offset ; (type, "sizeof") -> size

    def table_for(env, i, lay, raw):
        d = env.d(i)
        name = env.name(i)
        if name in seen:
            return
        seen.add(name)
        if d["k"] == "union":
            src.append('  printf("O %s - discriminator %%zu\\n", offsetof(%s, discriminator));' % (name, name))
            expect[(name, "-", "discriminator")] = 0
            for a in range(1, len(d["arms"]) + 1):
                src.append('  printf("O %s - %s %%zu\\n", offsetof(%s, %s));' % (name, env.aname(a), name, env.aname(a)))
                expect[(name, "-", env.aname(a))] = lay[i - 1]["align"]
            src.append('  printf("S %s %%zu\\n", sizeof(%s));' % (name, name))
            expect[(name, "sizeof")] = lay[i - 1]["size"]
            src.append('  printf("O %s - alignof %%zu\\n", alignof(%s));' % (name, name))
            expect[(name, "-", "alignof")] = lay[i - 1]["align"]
            return
        if d["k"] != "struct":
            return
        # alignment of the struct and of every later block (cast<>() relies on it to find the block)
        blocks = {}
        for part in raw[i - 1]:
            blocks[part["b"]] = max(blocks.get(part["b"], 1), part["a"])
        for b, al in sorted(blocks.items()):
            scope = name if b == 0 else "%s::part%d" % (name, b + 1)
            sc = "-" if b == 0 else "part%d" % (b + 1)
            src.append('  printf("O %s %s alignof %%zu\\n", alignof(%s));' % (name, sc, scope))
            expect[(name, sc, "alignof")] = lay[i - 1]["align"] if b == 0 else al
        for part in raw[i - 1]:
            j, r, b, off = part["j"], part["r"], part["b"], part["off"]
            m = d["ms"][j - 1]
            scope = name if b == 0 else "%s::part%d" % (name, b + 1)
            sc = "-" if b == 0 else "part%d" % (b + 1)
            fields = []
            if r in ("val", "sizer", "fixed", "arr", "greedy"):
                fields.append((env.fname(j), off))
            elif r == "opt":
                fields.append(("has_" + env.fname(j), off))
                fields.append((env.fname(j), off + part["a"]))
            elif r == "cnt":
                fields.append(("num_of_" + env.fname(j), off))
            for fld, o in fields:
                src.append('  printf("O %s %s %s %%zu\\n", offsetof(%s, %s));' % (name, sc, fld, scope, fld))
                expect[(name, sc, fld)] = o
        if lay[i - 1]["kind"] == 0:
            src.append('  printf("S %s %%zu\\n", sizeof(%s));' % (name, name))
            expect[(name, "sizeof")] = lay[i - 1]["size"]

    roots = []
    for g in groups:
        env = envs[g["gid"]]
        vec0 = g["vectors"][0]
        for i in range(1, len(env.defs) + 1):
            table_for(env, i, vec0["lay"], vec0["raw"])
        roots.append(env.name(len(env.defs)))
    src.append("}")
    src.append("const reg_entry REGISTRY[] = {")
    for name in (roots if with_swap else roots[:1]):
        src.append('    {"%s", &run_swap<%s>},' % (name, name))
    src.append("};")
    src.append("const size_t REGISTRY_SIZE = sizeof(REGISTRY) / sizeof(REGISTRY[0]);")
    return "\n".join(src) + "\n", expect


def repair_part_helpers(src):
    """The generated .pp.cpp with exactly the known defect
    raw-swap-inner-part-overaligned removed: a part helper returns its end
    as it is (the caller aligns it for the next part) instead of rounding it
    up to its own alignment first.  Used ONLY to decide whether a failing swap
    case is explained by that known finding (it is iff it passes here)."""
    import re
    return re.sub(r"return cast<(\w+::part\d+)\*>\((.*)\);",
                  r"return static_cast<\1*>(static_cast<void*>(\2));", src)


def build_raw(text, workdir, stem, driver_src, patch=None, included_text=None):
    """included_text: definitions that go into a second file which `stem`
    includes; both files are given to ONE prophyc run (the included file's
    nodes are then walked once per includer and once for themselves)."""
    path = os.path.join(workdir, stem + ".prophy")
    sources = [stem + ".pp.cpp"]
    argv = [path]
    if included_text:
        with open(os.path.join(workdir, "inner.prophy"), "w") as f:
            f.write(included_text)
        text = '#include "inner.prophy"\n' + text
        argv.append(os.path.join(workdir, "inner.prophy"))
        sources.append("inner.pp.cpp")
    with open(path, "w") as f:
        f.write(text)
    try:
        P.run_prophyc(argv + ["--cpp_out", workdir])
    except BaseException as e:  # noqa
        raise C.BuildFailure("prophyc", "%s: %s" % (type(e).__name__, str(e)[:2000]))
    if patch:
        srcp = os.path.join(workdir, stem + ".pp.cpp")
        with open(srcp) as f:
            body = f.read()
        with open(srcp, "w") as f:
            f.write(patch(body))
    with open(os.path.join(workdir, "drv.cpp"), "w") as f:
        f.write(driver_src)
    exe = os.path.join(workdir, "drv")
    objs = []
    for srcf in sources + ["drv.cpp"]:
        rc, out = C.run_cmd(["g++"] + RAW_FLAGS + ["-I", C.INCLUDE, "-I", C.CPP_DIR, "-I", workdir, "-c", srcf,
                                                   "-o", srcf + ".o"], workdir)
        if rc != 0:
            raise C.BuildFailure("compile " + srcf, out)
        objs.append(srcf + ".o")
    rc, out = C.run_cmd(["g++"] + RAW_FLAGS + objs + ["-o", exe], workdir)
    if rc != 0:
        raise C.BuildFailure("link", out)
    return exe


def worker(inner_defs, groups, extra):
    checks = set(extra["checks"])
    res = {"fails": [], "n_vec": 0, "n_groups": 0, "nontrivial": [], "samples": [], "n_checked": {},
           "skipped_groups": 0, "n_cases": 0}
    work = tempfile.mkdtemp(prefix="vfraw-", dir=extra.get("scratch"))
    counter = [0]
    built = []

    def build_or_split(gs):
        counter[0] += 1
        sub = os.path.join(work, "s%d" % counter[0])
        os.mkdir(sub)
        try:
            envs, text = render_batch(inner_defs, gs)
            drv, expect = gen_raw_driver(envs, gs, len(inner_defs), "b", with_swap="swap" in checks)
            inner_text = None
            if inner_defs and sum(map(ord, str(gs[0]["gid"]))) % 2 == 0:
                # every second batch: the shared inner types in an included file of their own
                first = next(iter(envs.values()))
                inner_text = first.render(range(1, len(inner_defs) + 1))
                if text.startswith(inner_text):
                    text = text[len(inner_text):]
                    res["n_checked"]["batches_with_included_file"] = res["n_checked"].get("batches_with_included_file", 0) + 1
                else:
                    inner_text = None
            exe = build_raw(text, sub, "b", drv, included_text=inner_text)
            built.append((gs, envs, exe, sub, expect))
        except C.BuildFailure as e:
            shutil.rmtree(sub, ignore_errors=True)
            nfail = sum(1 for f in res["fails"] if f["check"] == "build")
            if len(gs) == 1 or nfail >= 6:
                env = make_env(inner_defs, gs[0])
                _fail(res, "build", env, gs[0], None,
                      "schema accepted by the specification does not build as raw C++ codec (%s): %s"
                      % (e.stage, e.text[-800:]), stage=e.stage, ngroups=len(gs))
                return
            half = len(gs) // 2
            build_or_split(gs[:half])
            build_or_split(gs[half:])

    try:
        build_or_split(list(groups))
        for gs, envs, exe, wd, expect in built:
            if "offsets" in checks:
                check_tables(gs, envs, exe, wd, expect, res)
            if "swap" in checks:
                check_swap(gs, envs, exe, wd, res)
                attribute_part_overalignment(inner_defs, gs, res, work)
    finally:
        shutil.rmtree(work, ignore_errors=True)
    return res


def attribute_part_overalignment(inner_defs, gs, res, work):
    """Failing swap cases on schemas that contain the pattern of the known
    finding raw-swap-inner-part-overaligned are re-run on a build in which
    exactly that defect is repaired (repair_part_helpers): the failure is
    explained by the known finding iff it is gone there."""
    key = "raw-swap-inner-part-overaligned"
    open_fails = [f for f in res["fails"] if f["check"] == "swap" and key in (f.get("features") or ())
                  and "explained_by_repaired_build" not in f]
    gids = {f["gid"] for f in open_fails}
    sus = [g for g in gs if g["gid"] in gids]
    if not sus:
        return
    sub = tempfile.mkdtemp(prefix="rep", dir=work)
    try:
        envs, text = render_batch(inner_defs, sus)
        drv, _ = gen_raw_driver(envs, sus, len(inner_defs), "b", with_swap=True)
        exe = build_raw(text, sub, "b", drv, patch=repair_part_helpers)
        res2 = {"fails": [], "n_vec": 0, "n_groups": 0, "nontrivial": [], "samples": [], "n_checked": {}, "n_cases": 0}
        check_swap(sus, envs, exe, sub, res2)
        still = {f.get("case") for f in res2["fails"]}
        for f in open_fails:
            f["explained_by_repaired_build"] = f.get("case") not in still
    except C.BuildFailure:
        for f in open_fails:
            f["explained_by_repaired_build"] = False
    finally:
        shutil.rmtree(sub, ignore_errors=True)


def check_tables(groups, envs, exe, wd, expect, res):
    p = subprocess.run([exe, "T"], cwd=wd, stdout=subprocess.PIPE, stderr=subprocess.PIPE, timeout=120,
                       env=dict(os.environ, **C.SAN_ENV))
    if p.returncode != 0:
        raise RuntimeError("raw table driver failed: %s" % p.stderr.decode(errors="replace")[-1000:])
    got = {}
    for line in p.stdout.decode().splitlines():
        parts = line.split()
        if parts and parts[0] == "O":
            got[(parts[1], parts[2], parts[3])] = int(parts[4])
        elif parts and parts[0] == "S":
            got[(parts[1], "sizeof")] = int(parts[2])
    owner = {}
    for g in groups:
        env = envs[g["gid"]]
        for i in range(1, len(env.defs) + 1):
            owner.setdefault(env.name(i), (env, g))
        res["n_groups"] += 1
        res["nontrivial"].append(g["gid"])
    for key, want in expect.items():
        res["n_checked"]["offsets"] = res["n_checked"].get("offsets", 0) + 1
        have = got.get(key)
        if have != want:
            env, g = owner[key[0]]
            if key[1] == "sizeof":
                what = "sizeof(%s) = %r, wire size %d" % (key[0], have, want)
            else:
                what = "alignof(%s%s) = %r, wire alignment of the block %d" % (
                    key[0], "" if key[1] == "-" else "::" + key[1], have, want) if key[2] == "alignof" else \
                    "offsetof(%s%s, %s) = %r, wire offset %d" % (
                    key[0], "" if key[1] == "-" else "::" + key[1], key[2], have, want)
            _fail(res, "offsets", env, g, None, what, type=key[0], member=key[2] if len(key) > 2 else None)
    res["n_cases"] += len(expect)
    if len(res["samples"]) < 1 and expect:
        k = sorted(expect)[len(expect) // 2]
        res["samples"].append({"offset_table_entry": list(k), "wire": expect[k], "compiler": got.get(k)})


def check_swap(groups, envs, exe, wd, res):
    cases, meta = [], {}
    for g in groups:
        env = envs[g["gid"]]
        root = env.name(len(env.defs))
        for vi, vec in enumerate(g["vectors"]):
            cid = "%s.%d" % (g["gid"], vi)
            cases.append((cid, root, bytes(vec["outB"]).hex() or "-"))
            meta[cid] = (g, vec)
            res["n_vec"] += 1
    case_file = os.path.join(wd, "cases.txt")
    with open(case_file, "w") as f:
        for c in cases:
            f.write("%s %s %s\n" % c)
    index = {c[0]: k for k, c in enumerate(cases)}
    first, results, restarts = 0, {}, 0
    while first < len(cases):
        try:
            p = subprocess.run([exe, case_file, str(first)], cwd=wd, stdout=subprocess.PIPE, stderr=subprocess.PIPE,
                               timeout=30, env=dict(os.environ, **C.SAN_ENV))
            rc, out, err = p.returncode, p.stdout.decode(errors="replace"), p.stderr.decode(errors="replace")
        except subprocess.TimeoutExpired as e:
            rc, out, err = -9, (e.stdout or b"").decode(errors="replace"), "timeout"
        current, ended = None, False
        for line in out.splitlines():
            parts = line.split()
            if not parts:
                continue
            if parts[0] == "BEGIN":
                current = parts[1]
            elif parts[0] == "R":
                results[parts[1]] = dict(kv.split("=", 1) for kv in parts[2:])
                current = None
            elif parts[0] == "END":
                ended = True
        if ended and rc == 0:
            break
        if current is None:
            raise RuntimeError("raw driver exited rc=%s outside a case: %s" % (rc, err[-1500:]))
        results[current] = {"crash": "exit %s; %s" % (rc, C_first(err))}
        first = index[current] + 1
        restarts += 1
        if restarts >= 25:
            break
    res["n_cases"] += len(cases)
    for cid, (g, vec) in meta.items():
        r = results.get(cid)
        if r is None:
            continue
        env = envs[g["gid"]]
        res["n_checked"]["swap"] = res["n_checked"].get("swap", 0) + 1
        outL, outB = bytes(vec["outL"]), bytes(vec["outB"])
        kw = dict(case=cid, inp=outB.hex())
        if "crash" in r:
            _fail(res, "swap", env, g, vec, "swap of %s failed: %s" % (outB.hex(), r["crash"]), **kw)
            continue
        buf = bytes.fromhex(r["buf"].replace("-", ""))
        ret = int(r["ret"])
        if r["guards"] != "1":
            _fail(res, "swap", env, g, vec, "swap changed bytes outside the message", **kw)
        if vec["ust"] == 0:
            # no greedy tail: whole message converted, returns one past the (aligned) end
            if buf != outL:
                _fail(res, "swap", env, g, vec, "after swap the buffer is %s, native image %s" % (buf.hex(), outL.hex()), **kw)
            if ret != len(outL):
                _fail(res, "swap", env, g, vec, "swap returned offset %d, message ends at %d" % (ret, len(outL)), **kw)
        else:
            u = vec["ust"] - 1
            if buf[:u] != outL[:u]:
                _fail(res, "swap", env, g, vec, "members before the unlimited member: buffer %s, native image %s"
                      % (buf[:u].hex(), outL[:u].hex()), **kw)
            if ret != u:
                al = g["lay"][len(env.defs) - 1]["align"]
                rounded = (u + al - 1) // al * al
                _fail(res, "swap", env, g, vec, "swap returned offset %d, the unlimited member starts at %d" % (ret, u),
                      returned_rounded_to_struct_alignment=(ret == rounded), **kw)
    for g in groups:
        res["nontrivial"].append(g["gid"])
        res["n_groups"] += 1
    if len(res["samples"]) < 2 and cases:
        c = cases[len(cases) // 2]
        res["samples"].append({"swap_case": list(c), "result": results.get(c[0])})


def C_first(stderr):
    for line in stderr.splitlines():
        if "ERROR: AddressSanitizer" in line or "runtime error" in line or "SUMMARY" in line:
            return line.strip()[:300]
    return stderr.strip()[-300:]
