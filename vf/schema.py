"""Harness-side view of the specification's schema values (JSON from TLC or
built by the hypothesis generators): rendering to prophy text and the
walk <-> value-tree conversion.  Trusted, deliberately dumb code: it contains
no layout knowledge whatsoever (sizes, alignments, paddings all come from the
specification via TLC)."""
import struct as pystruct

FIXED, DYNAMIC, UNLIMITED = 0, 1, 2

INT_NAMES = {(1, 0): "u8", (2, 0): "u16", (4, 0): "u32", (8, 0): "u64",
             (1, 1): "i8", (2, 1): "i16", (4, 1): "i32", (8, 1): "i64"}
FLT_NAMES = {4: "float", 8: "double"}
PY_FLT = {4: "r32", 8: "r64"}


def Int(w, s=0):
    return {"k": "int", "w": w, "i": 0, "s": s}


def Flt(w):
    return {"k": "flt", "w": w, "i": 0, "s": 0}


BYTE = {"k": "byte", "w": 1, "i": 0, "s": 0}


def Ref(i):
    return {"k": "ref", "w": 0, "i": i, "s": 0}


def Mem(f, t, n=0, c=0):
    return {"f": f, "t": t, "n": n, "c": c}


def StructDef(ms):
    return {"k": "struct", "ms": ms, "arms": [], "vals": [], "t": BYTE}


def UnionDef(arms):
    return {"k": "union", "ms": [], "arms": arms, "vals": [], "t": BYTE}


def EnumDef(vals):
    return {"k": "enum", "ms": [], "arms": [], "vals": vals, "t": BYTE}


def TypedefDef(t):
    return {"k": "typedef", "ms": [], "arms": [], "vals": [], "t": t}


class Env:
    """env: list of typedef dicts (1-based indices as in the spec).
    names: optional list of type names (same length)."""

    def __init__(self, defs, prefix="T", names=None):
        self.defs = defs
        self.names = names or ["%s%d" % (prefix, i + 1) for i in range(len(defs))]

    def d(self, i):
        return self.defs[i - 1]

    def name(self, i):
        return self.names[i - 1]

    def base(self, t):
        while t["k"] == "ref" and self.d(t["i"])["k"] == "typedef":
            t = self.d(t["i"])["t"]
        return t

    def tname(self, t):
        if t["k"] == "int":
            return INT_NAMES[(t["w"], t["s"])]
        if t["k"] == "flt":
            return FLT_NAMES[t["w"]]
        if t["k"] == "byte":
            return "bytes"
        return self.name(t["i"])

    # -- member / enumerator / arm names (shared by every renderer)
    @staticmethod
    def fname(j):
        return "f%d" % j

    def ename(self, i, j):
        return "%s_e%d" % (self.name(i), j)

    @staticmethod
    def aname(a):
        return "a%d" % a

    def is_sizer(self, ms, j):
        return any(m["f"] in ("ext", "limx") and m["c"] == j for m in ms)

    def mname(self, i, j):
        """name of member j of struct i (overridable per struct: member_names)"""
        table = getattr(self, "member_names", None)
        if table and i in table:
            return table[i][j - 1]
        return self.fname(j)

    # -- prophy text
    def render_def(self, i):
        d = self.d(i)
        n = self.name(i)
        if d["k"] == "enum":
            body = ",\n".join("    %s = %d" % (self.ename(i, j + 1), v) for j, v in enumerate(d["vals"]))
            return "enum %s\n{\n%s\n};\n" % (n, body)
        if d["k"] == "typedef":
            return "typedef %s %s;\n" % (self.tname(d["t"]), n)
        if d["k"] == "union":
            body = "".join("    %d: %s %s;\n" % (a["d"], self.tname(a["t"]), self.aname(x + 1))
                           for x, a in enumerate(d["arms"]))
            return "union %s\n{\n%s};\n" % (n, body)
        lines = []
        for j, m in enumerate(d["ms"], 1):
            tn, fn = self.tname(m["t"]), self.fname(j)
            f = m["f"]
            if f == "plain":
                lines.append("%s %s;" % (tn, fn))
            elif f == "opt":
                lines.append("%s* %s;" % (tn, fn))
            elif f == "fixed":
                lines.append("%s %s[%d];" % (tn, fn, m["n"]))
            elif f == "dyn":
                lines.append("%s %s<>;" % (tn, fn))
            elif f == "lim":
                lines.append("%s %s<%d>;" % (tn, fn, m["n"]))
            elif f == "greedy":
                lines.append("%s %s<...>;" % (tn, fn))
            elif f == "ext":
                lines.append("%s %s<@%s>;" % (tn, fn, self.fname(m["c"])))
            elif f == "limx":
                raise ValueError("externally counted limited array is not expressible in prophy text")
            else:
                raise ValueError(f)
        return "struct %s\n{\n%s};\n" % (n, "".join("    %s\n" % x for x in lines))

    def render(self, indices=None):
        if indices is None:
            indices = range(1, len(self.defs) + 1)
        return "\n".join(self.render_def(i) for i in indices)


# ---------------------------------------------------------------------------
# walk <-> value tree
# ---------------------------------------------------------------------------
# value tree:
#   scalar       : tuple of little-endian bytes
#   enum         : ("enum", j)                1-based enumerator index
#   struct       : ("struct", [member values])
#     plain        value
#     sizer        ("len", n)
#     opt          None | value
#     arrays       [values]           (bytes arrays: list of 1-byte tuples)
#   union        : ("union", a, value)        1-based arm index

class WalkError(Exception):
    pass


def walk_to_value(env, t, walk):
    it = iter(walk)

    def nxt(kind):
        try:
            ev = next(it)
        except StopIteration:
            raise WalkError("walk exhausted, wanted %s" % kind)
        if ev["e"] != kind:
            raise WalkError("walk has %s, wanted %s" % (ev["e"], kind))
        return ev

    def val(t):
        b = env.base(t)
        if b["k"] in ("int", "flt", "byte"):
            return tuple(nxt("int")["v"])
        d = env.d(b["i"])
        if d["k"] == "enum":
            return ("enum", nxt("enum")["n"])
        if d["k"] == "union":
            a = nxt("arm")["n"]
            return ("union", a, val(d["arms"][a - 1]["t"]))
        ms = d["ms"]
        lens = {}
        out = []
        for j, m in enumerate(ms, 1):
            f = m["f"]
            if f == "plain":
                if env.is_sizer(ms, j):
                    lens[j] = nxt("len")["n"]
                    out.append(("len", lens[j]))
                else:
                    out.append(val(m["t"]))
            elif f == "opt":
                out.append(val(m["t"]) if nxt("opt")["n"] else None)
            elif f == "fixed":
                out.append([val(m["t"]) for _ in range(m["n"])])
            elif f in ("dyn", "lim", "greedy"):
                n = nxt("len")["n"]
                out.append([val(m["t"]) for _ in range(n)])
            elif f in ("ext", "limx"):
                out.append([val(m["t"]) for _ in range(lens[m["c"]])])
        return ("struct", out)

    v = val(t)
    rest = list(it)
    if rest:
        raise WalkError("walk has %d unused events" % len(rest))
    return v


def value_to_walk(env, t, value):
    walk = []

    def ev(e, n=0, v=()):
        walk.append({"e": e, "n": n, "v": list(v)})

    def val(t, x):
        b = env.base(t)
        if b["k"] in ("int", "flt", "byte"):
            ev("int", 0, x)
            return
        d = env.d(b["i"])
        if d["k"] == "enum":
            ev("enum", x[1])
        elif d["k"] == "union":
            ev("arm", x[1])
            val(d["arms"][x[1] - 1]["t"], x[2])
        else:
            for j, (m, y) in enumerate(zip(d["ms"], x[1]), 1):
                f = m["f"]
                if f == "plain":
                    if env.is_sizer(d["ms"], j):
                        ev("len", y[1])
                    else:
                        val(m["t"], y)
                elif f == "opt":
                    ev("opt", 0 if y is None else 1)
                    if y is not None:
                        val(m["t"], y)
                elif f in ("fixed", "ext", "limx"):
                    for e in y:
                        val(m["t"], e)
                else:
                    ev("len", len(y))
                    for e in y:
                        val(m["t"], e)

    val(t, value)
    return walk


# ---------------------------------------------------------------------------
# scalar payload <-> Python number
# ---------------------------------------------------------------------------
def scalar_from_bytes(t, le):
    data = bytes(le)
    if t["k"] == "flt":
        return pystruct.unpack("<f" if t["w"] == 4 else "<d", data)[0]
    return int.from_bytes(data, "little", signed=bool(t["s"]))


def scalar_to_bytes(t, x):
    if t["k"] == "flt":
        return tuple(pystruct.pack("<f" if t["w"] == 4 else "<d", x))
    return tuple(int(x).to_bytes(t["w"], "little", signed=bool(t["s"])))
