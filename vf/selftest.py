"""Binding self-test (run by setup.sh): the trace specification must accept
genuine recordings of the Python codec and reject exactly the ones that were
tampered with - one corrupted byte, one dropped event, one swapped pair of
events.  Demonstrates that the specification is bound to the code (a spec
nothing binds would accept everything)."""
import copy
import sys

from . import pytrace, wire
from .common import scratch_dir


def main():
    rec = pytrace.record_worker(4242, 6, 4, {"scratch": scratch_dir("self")})
    items = rec["items"]
    if len(items) < 12 or rec["fails"]:
        print("selftest: could not record enough traces (%d, %d fails)" % (len(items), len(rec["fails"])))
        return 2
    tampered = {}
    # 1: corrupt one recorded byte
    k = next(i for i, it in enumerate(items) if len(it["obsL"]) > 3)
    it = copy.deepcopy(items[k])
    it["obsL"][len(it["obsL"]) // 2] ^= 0x40
    items[k] = it
    tampered[k] = "corrupted byte"
    # 2: drop one event
    k2 = next(i for i, it in enumerate(items) if i != k and len(it["walk"]) > 2)
    it = copy.deepcopy(items[k2])
    del it["walk"][len(it["walk"]) // 2]
    items[k2] = it
    tampered[k2] = "dropped event"
    # 3: swap two different adjacent events
    for k3, it in enumerate(items):
        if k3 in tampered:
            continue
        w = it["walk"]
        j = next((j for j in range(len(w) - 1) if w[j] != w[j + 1] and w[j]["e"] != w[j + 1]["e"]), None)
        if j is not None:
            it = copy.deepcopy(it)
            it["walk"][j], it["walk"][j + 1] = it["walk"][j + 1], it["walk"][j]
            items[k3] = it
            tampered[k3] = "swapped events"
            break
    verdicts, illegal, stats = wire.validate_traces(items)
    bad = []
    for i, v in enumerate(verdicts):
        rejected = bool(v is None or v["dL"] or v["dB"])
        if rejected != (i in tampered):
            bad.append((i, tampered.get(i, "genuine"), "rejected" if rejected else "accepted"))
    print("selftest: %d traces, %d tampered (%s), TLC states %s" % (
        len(items), len(tampered), ", ".join(sorted(set(tampered.values()))), stats.get("distinct")))
    if bad or illegal:
        print("selftest FAILED: %r illegal=%r" % (bad, illegal))
        return 2
    print("selftest ok: genuine traces accepted, tampered traces rejected")
    return 0


if __name__ == "__main__":
    sys.exit(main())
