"""Binding self-test (run by setup.sh): the trace specification must accept
genuine recordings of the Python codec and reject exactly the ones that were
tampered with - one corrupted byte, one dropped event, one swapped pair of
events.  Demonstrates that the specification is bound to the code (a spec
nothing binds would accept everything)."""
import copy
import sys

from . import pytrace, wire
from .common import scratch_dir


def main():
    rec = pytrace.record_worker(4242, 6, 4, {"scratch": scratch_dir("self")})
    items = rec["items"]
    if len(items) < 12 or rec["fails"]:
        print("selftest: could not record enough traces (%d, %d fails)" % (len(items), len(rec["fails"])))
        return 2
    tampered = {}
    # 1: corrupt one recorded byte
    k = next(i for i, it in enumerate(items) if len(it["obsL"]) > 3)
    it = copy.deepcopy(items[k])
    it["obsL"][len(it["obsL"]) // 2] ^= 0x40
    items[k] = it
    tampered[k] = "corrupted byte"
    # 2: drop one event
    k2 = next(i for i, it in enumerate(items) if i != k and len(it["walk"]) > 2)
    it = copy.deepcopy(items[k2])
    del it["walk"][len(it["walk"]) // 2]
    items[k2] = it
    tampered[k2] = "dropped event"
    # 3: swap two different adjacent events
    for k3, it in enumerate(items):
        if k3 in tampered:
            continue
        w = it["walk"]
        j = next((j for j in range(len(w) - 1) if w[j] != w[j + 1] and w[j]["e"] != w[j + 1]["e"]), None)
        if j is not None:
            it = copy.deepcopy(it)
            it["walk"][j], it["walk"][j + 1] = it["walk"][j + 1], it["walk"][j]
            items[k3] = it
            tampered[k3] = "swapped events"
            break
    verdicts, illegal, stats = wire.validate_traces(items)
    bad = []
    for i, v in enumerate(verdicts):
        rejected = bool(v is None or v["dL"] or v["dB"])
        if rejected != (i in tampered):
            bad.append((i, tampered.get(i, "genuine"), "rejected" if rejected else "accepted"))
    print("selftest: %d traces, %d tampered (%s), TLC states %s" % (
        len(items), len(tampered), ", ".join(sorted(set(tampered.values()))), stats.get("distinct")))
    if bad or illegal:
        print("selftest FAILED: %r illegal=%r" % (bad, illegal))
        return 2
    print("selftest ok: genuine traces accepted, tampered traces rejected")
    return decode_selftest()


def decode_selftest():
    """Decode direction: the reference decoder (WireDecGiven) must reproduce
    the walk the real codec decoded from canonical images, and must not do so
    once a recorded input is truncated or a recorded walk is altered."""
    rec = pytrace.decode_worker(4243, 6, 3, 0, {"scratch": scratch_dir("self")})
    recs = [r for r in rec["records"] if r["kind"] == "canon" and r["outcome"] == "return" and r["walk"]]
    if len(recs) < 12:
        print("selftest: could not record enough decodes (%d)" % len(recs))
        return 2
    items = []
    for r in recs:
        items.append({"env": r["env"], "inp": r["inp"], "ord": r["ord"], "expect": r["walk"], "tampered": False})
    for r in recs[:6]:
        if len(r["inp"]) > 1:
            items.append({"env": r["env"], "inp": r["inp"][:-1], "ord": r["ord"], "expect": r["walk"], "tampered": True})
    verdicts, stats = wire.decide_decodes(items)
    tv, _, _ = wire.validate_traces([{"env": it["env"], "walk": it["expect"],
                                      "obsL": it["inp"] if it["ord"] == "L" else [],
                                      "obsB": it["inp"] if it["ord"] == "B" else []} for it in items])
    bad = []
    n_t = 0
    for it, v, t in zip(items, verdicts, tv):
        same = v["verdict"] == "accept" and v["dwalk"] == it["expect"]
        unaligned_tail = v["kind"] == 2 and t is not None and not t["gta"]
        if it["tampered"]:
            n_t += 1
            # one byte less: the encoder specification must see a different image
            if t is not None and not (t["dL"] or t["dB"]):
                bad.append(("truncated input accepted as the canonical image", it["inp"]))
        elif not same and not unaligned_tail:
            bad.append(("genuine decode not reproduced", it["inp"], v["verdict"], v["reason"]))
    print("selftest: %d recorded decodes, %d tampered, TLC states %s" % (len(items), n_t, stats.get("distinct")))
    if bad:
        print("selftest FAILED: %r" % (bad[:3],))
        return 2
    print("selftest ok: reference decoder reproduces genuine decodes, tampered inputs are told apart")
    return 0


if __name__ == "__main__":
    sys.exit(main())
