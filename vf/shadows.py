"""Narrow structural shadow predicates for known findings (see
KNOWN_FINDINGS.txt).  features() names the known-defect patterns a schema
contains; match() maps a failing case to the key of a `known:` line, or None.
Committed code; nothing here is modified at run time."""


def _reach(env, t, seen):
    """indices of composite types reachable from type ref t"""
    b = env.base(t)
    if b["k"] != "ref":
        return
    i = b["i"]
    if i in seen:
        return
    seen.add(i)
    d = env.d(i)
    for m in d["ms"]:
        _reach(env, m["t"], seen)
    for a in d["arms"]:
        _reach(env, a["t"], seen)


def _contains_limited(env, t, memo):
    """does the C++ full object of fixed type t contain a std::vector, i.e. a
    limited array, directly or through nested fixed composites?"""
    b = env.base(t)
    if b["k"] != "ref":
        return False
    i = b["i"]
    if i in memo:
        return memo[i]
    memo[i] = False
    d = env.d(i)
    r = any(m["f"] == "lim" or _contains_limited(env, m["t"], memo) for m in d["ms"]) or \
        any(_contains_limited(env, a["t"], memo) for a in d["arms"])
    memo[i] = r
    return r


def features(env, root, lay=None):
    """Known-defect patterns present in the schema rooted at type index root."""
    feats = set()
    seen = set()
    _reach(env, {"k": "ref", "i": root, "w": 0, "s": 0}, seen)
    memo = {}
    for i in seen:
        d = env.d(i)
        for m in d["ms"]:
            if m["f"] == "opt" and _contains_limited(env, m["t"], memo):
                # F-C05b: prophy::optional<T> pads by the C++ alignof(T), which is 8
                # for any T holding a std::vector, instead of T's wire alignment
                if lay is None or lay[env.base(m["t"])["i"] - 1]["align"] < 8:
                    feats.add("cpp-optional-of-struct-with-limited-array")
    if lay is not None and _inner_part_overaligned(env, seen, lay):
        feats.add("raw-swap-inner-part-overaligned")
    return sorted(feats)


def _type_align(env, t, lay):
    b = env.base(t)
    if b["k"] in ("int", "flt", "byte"):
        return b["w"]
    return lay[b["i"] - 1]["align"]


def _type_kind(env, t, lay):
    b = env.base(t)
    return lay[b["i"] - 1]["kind"] if b["k"] == "ref" else 0


def _inner_part_overaligned(env, reach, lay):
    """raw C++ structs are cut into parts after every dynamic field; the swap
    helper of a part other than the first returns its end cast to ITS OWN type
    (so rounded up to its own alignment) and only then is it cast to the next
    part: wrong whenever the next part is less aligned.  True when a reachable
    struct has such a pair of consecutive parts."""
    for i in reach:
        d = env.d(i)
        if d["k"] != "struct":
            continue
        parts, cur = [], []
        for m in d["ms"]:
            a = _type_align(env, m["t"], lay)
            if m["f"] in ("opt", "dyn", "lim"):
                a = max(4, a)
            cur.append(a)
            if m["f"] in ("dyn", "ext", "greedy") or (m["f"] == "plain" and _type_kind(env, m["t"], lay) != 0):
                parts.append(max(cur))
                cur = []
        if cur:
            parts.append(max(cur))
        for b in range(1, len(parts) - 1):
            if parts[b] > parts[b + 1]:
                return True
    return False


# (property, check kind) -> features that explain a failure of that kind
EXPLAINS = {
    ("C03", "compat"): {"cpp-optional-of-struct-with-limited-array"},
    ("C07", "memsafe"): {"cpp-optional-of-struct-with-limited-array"},
    ("C05", "gbs"): {"cpp-optional-of-struct-with-limited-array"},
}


def match(pid, fail):
    what = str(fail.get("what", ""))
    if pid in ("C07",) and "which is not a valid value for type '" in what and "runtime error: load of value" in what:
        # UBSan -fsanitize=enum at the switch over a decoded enum/discriminator
        return "cpp-enum-load-out-of-range"
    if pid == "C09" and fail.get("check") == "swap" and fail.get("returned_rounded_to_struct_alignment") \
            and "swap returned offset" in what:
        return "raw-swap-greedy-return-rounded"
    if pid == "C09" and fail.get("check") == "swap" and "raw-swap-inner-part-overaligned" in (fail.get("features") or ()) \
            and fail.get("explained_by_repaired_build") is True:
        # the case passes on a build in which exactly that defect is repaired (vf/rawwire.py)
        return "raw-swap-inner-part-overaligned"
    if pid == "C02" and fail.get("large_array", 0) > 65536 and "decoded array length over 65536" in what:
        return "python-decode-element-guard"
    if pid == "C05" and fail.get("check") == "gbs" and fail.get("outgrown") is True:
        return "cpp-vector-outgrows-sizer"
    if pid == "C10" and fail.get("check") == "sizer-range" and fail.get("exception") == "error" \
            and "format requires" in what:
        # struct.error from packing the counter: the array outgrew its sizer's range
        return "python-array-outgrows-sizer"
    if pid == "C12" and fail.get("check") == "legality" and fail.get("label") in ("struct named E", "enum named E") \
            and "s.ppf.cpp does not compile" in what:
        # the generated full-codec source declares `template <endianness E>`: a type called E collides with it
        return "cpp-full-type-named-E"
    if pid == "C14" and fail.get("check") == "expr" and str(fail.get("context", "")).startswith("isar -> c++"):
        # the same raw text read by the C++ compiler: explained only if C/C++
        # operator precedence gives exactly what was observed (or no constant
        # expression at all) and the text contains a shift
        text = str(fail.get("text", ""))
        if ("<<" in text or ">>" in text or "--" in text) and fail.get("c_value") == fail.get("observed") \
                and fail.get("observed") != fail.get("value"):
            return "isar-raw-expression-text"
        return None
    if pid == "C14" and fail.get("check") == "expr" and str(fail.get("context", "")).startswith("isar"):
        ctx = str(fail.get("context"))
        text = ctx[ctx.find("(") + 1:] if "(" in ctx else str(fail.get("min")) + str(fail.get("full"))
        if ctx.startswith("isar ->") or ctx == "isar":
            text = ctx if "(" in ctx else str(fail.get("min")) + " " + str(fail.get("full"))
        if "/" in text or "<<" in text or ">>" in text:
            # isar constant values reach the generated Python module as raw text and are
            # evaluated there with Python's '/' (true division) and shift precedence
            return "isar-raw-expression-text"
    if pid == "C13" and fail.get("exception") == "ValueError" and "Duplicate Enum value in" in what \
            and (fail.get("case") or {}).get("fe") == "isar":
        return "isar-duplicate-enum-value-valueerror"
    if pid == "C13" and fail.get("exception") == "ValueError" and "integer string conversion" in what \
            and (fail.get("case") or {}).get("fault") == "huge_literal":
        return "python-int-text-limit-valueerror"
    feats = set(fail.get("features") or ())
    for f in sorted(EXPLAINS.get((pid, fail.get("check")), set()) & feats):
        return f
    return None
