"""Narrow structural shadow predicates for known findings (see
KNOWN_FINDINGS.txt).  match() returns the key of the known-finding pattern a
failing case falls under, or None.  Never modified at run time."""


def match(pid, fail):
    return None
