"""Run TLC on a module from /verif/spec and collect what it printed."""
import json
import os
import re
import subprocess

from .common import SPEC, NCPU, MachineryError, scratch_dir

JAR_CP = "/opt/veriftools/tla/tla2tools.jar:/opt/veriftools/tla/CommunityModules-deps.jar"


def _cfg_text(constants, invariants=(), properties=(), spec="Spec", constraint=None,
              postcondition=None, view=None, extra=""):
    lines = ["SPECIFICATION %s" % spec, "CONSTANTS"]
    for name, val in constants.items():
        if isinstance(val, str) and val.startswith("<-"):
            lines.append("    %s %s" % (name, val))
        else:
            lines.append("    %s = %s" % (name, val))
    for inv in invariants:
        lines.append("INVARIANT %s" % inv)
    for p in properties:
        lines.append("PROPERTY %s" % p)
    if constraint:
        lines.append("CONSTRAINT %s" % constraint)
    if postcondition:
        lines.append("POSTCONDITION %s" % postcondition)
    if view:
        lines.append("VIEW %s" % view)
    lines.append("CHECK_DEADLOCK FALSE")
    if extra:
        lines.append(extra)
    return "\n".join(lines) + "\n"


class TlcResult:
    def __init__(self):
        self.stats = {}
        self.lines = []       # payload lines (already unquoted)
        self.ok = False
        self.error = None
        self.raw_tail = ""


def run_tlc(module, constants, invariants=(), properties=(), spec="Spec", prefix=("VEC",),
            simulate=None, depth=100, seed=0, workers=None, env=None, timeout=3600,
            constraint=None, postcondition=None, view=None, extra_cfg="", expect_violation=False,
            on_line=None, java_opts=None):
    """Returns TlcResult.  `prefix`: PrintT payload prefixes to keep.
    simulate: None for breadth-first, else number of behaviours."""
    work = scratch_dir("tlc")
    cfg = os.path.join(work, "run.cfg")
    with open(cfg, "w") as f:
        f.write(_cfg_text(constants, invariants, properties, spec, constraint, postcondition, view, extra_cfg))
    workers = workers or NCPU
    cmd = ["java", "-XX:+UseParallelGC", "-Xmx8g", "-Xss64m"]   # deep (recursive) operator evaluation needs stack
    if java_opts:
        cmd += java_opts
    cmd += ["-cp", JAR_CP, "tlc2.TLC", "-workers", str(workers), "-metadir", os.path.join(work, "meta"),
            "-noGenerateSpecTE", "-config", cfg]
    if simulate is not None:
        cmd += ["-simulate", "num=%d" % simulate, "-depth", str(depth), "-seed", str(seed)]
    cmd += [os.path.join(SPEC, module + ".tla")]
    penv = dict(os.environ)
    if env:
        penv.update(env)
    res = TlcResult()
    outpath = os.path.join(work, "out.txt")
    with open(outpath, "w") as out:
        try:
            proc = subprocess.run(cmd, cwd=SPEC, stdout=out, stderr=subprocess.STDOUT, env=penv, timeout=timeout)
        except subprocess.TimeoutExpired:
            raise MachineryError("TLC timed out after %ss on %s" % (timeout, module))
    tail = []
    pfx = tuple('"' + p + " " for p in prefix)
    with open(outpath, errors="replace") as f:
        for line in f:
            if line.startswith(pfx):
                try:
                    s = json.loads(line)
                except ValueError:
                    raise MachineryError("unparsable TLC payload line: %r" % line[:200])
                tag, _, body = s.partition(" ")
                if on_line:
                    on_line(tag, body)
                else:
                    res.lines.append((tag, body))
                continue
            tail.append(line)
            if len(tail) > 400:
                del tail[:200]
            m = re.match(r"(\d+) states generated, (\d+) distinct states found", line)
            if m:
                res.stats = {"generated": int(m.group(1)), "distinct": int(m.group(2))}
            m = re.match(r"The depth of the complete state graph search is (\d+)", line)
            if m:
                res.stats["depth"] = int(m.group(1))
            if line.startswith("Error:") and res.error is None:
                res.error = line.strip()
    res.raw_tail = "".join(tail[-120:])
    res.stats["module"] = module
    res.stats["mode"] = "simulate" if simulate is not None else "bfs"
    res.stats["constants"] = {k: str(v) for k, v in constants.items()}
    if simulate is not None and "generated" not in res.stats:
        # simulation mode prints "... states checked" progress only
        m = re.findall(r"(\d+) states checked", res.raw_tail)
        if m:
            res.stats["generated"] = res.stats["distinct"] = int(m[-1])
    res.ok = proc.returncode == 0 and res.error is None
    if not res.ok and not expect_violation:
        raise MachineryError("TLC failed on %s (rc=%s): %s\n%s" % (module, proc.returncode, res.error, res.raw_tail[-3000:]))
    return res
