"""The wire family (C01 C02 C04 C06 C19 on the Python side; shared vector
generation for the C++ legs): TLC vector generation and batch dispatch."""
import json
import os
import random
import time
from concurrent.futures import ProcessPoolExecutor, as_completed

from . import schema as S
from .common import NCPU, MachineryError, scratch_dir, seed
from .tlcrun import run_tlc

WIRE_INVARIANTS = ["TypeOK", "SchemaLegal", "AlignedEmit", "ZeroFillForward", "Mirror", "FixedLength", "Dump"]


SCALARS = {"u": "<- ScalarsU", "u18": "<- ScalarsU18", "all": "<- ScalarsAll"}


def consts(inner, max_members, max_types=1, max_len=2, widths="u", fixn=2, limn=2, high=False, forms="FormsAll"):
    return {"Inner": "<- " + inner, "MaxLen": max_len, "MaxMembers": max_members, "MaxTypes": max_types,
            "Forms": "<- " + forms,
            "Scalars": SCALARS.get(widths, widths), "PayloadHigh": "TRUE" if high else "FALSE", "FixN": fixn, "LimN": limn}


class VectorSet:
    def __init__(self):
        self.inner = {}       # inner name -> list of defs
        self.vectors = []     # dicts; v["inner"] = inner name
        self.stats = []

    def add_run(self, inner_name, res, pin=False):
        for tag, body in res.lines:
            if tag == "INNER":
                self.inner[inner_name] = json.loads(body)
            elif tag == "VEC":
                v = json.loads(body)
                v["inner"] = inner_name
                if pin:
                    v["pin"] = True       # never sampled away by the C++ legs
                self.vectors.append(v)
        self.stats.append(res.stats)


def generate(tier, want_sim=True, light=False):
    """Run the TLC configurations of the tier and return a VectorSet.
    light: the smaller quick configuration used by the C++ legs, whose cost
    is dominated by compiling the generated code."""
    vs = VectorSet()
    sd = seed()
    if tier == "quick" and light:
        runs = [("InnerSmall", consts("InnerSmall", 2, max_len=1), None),
                ("InnerDef", consts("InnerDef", 1), None),
                ("InnerSmall", consts("InnerSmall", 1, widths="all", high=True), None),
                ("InnerDef", consts("InnerDef", 2, forms="FormsPlain", max_len=2), None),
                ("InnerDef", consts("InnerDef", 4, max_types=2, max_len=2, widths="all", high=(sd % 2 == 0)), 40)]
    elif tier == "quick":
        runs = [("InnerSmall", consts("InnerSmall", 2), None),
                ("InnerDef", consts("InnerDef", 1), None),
                ("InnerSmall", consts("InnerSmall", 1, widths="all", high=True), None),
                ("InnerDef", consts("InnerDef", 2, forms="FormsPlain", max_len=2), None)]
        if want_sim:
            runs.append(("InnerDef", consts("InnerDef", 4, max_types=2, max_len=3, widths="all", high=(sd % 2 == 0)), 150))
    else:
        runs = [("InnerDef", consts("InnerDef", 2, max_len=1), None),
                ("InnerSmall", consts("InnerSmall", 2), None),
                ("InnerSmall", consts("InnerSmall", 2, widths="all", high=True, max_len=1), None)]
        if want_sim:
            runs.append(("InnerDef", consts("InnerDef", 5, max_types=3, max_len=3, widths="all"), 3000))
            runs.append(("InnerDef", consts("InnerDef", 5, max_types=3, max_len=3, widths="all", high=True), 3000))
    _run_parallel(vs, runs, sd)
    return vs


def _run_parallel(vs, runs, sd):
    """The TLC configurations of one tier, one after the other (running them
    side by side was measured to be no faster on this sandbox)."""
    for inner, c, sim in runs:
        res = run_tlc("WireMC", c, invariants=WIRE_INVARIANTS, prefix=("VEC", "INNER"),
                      simulate=sim, depth=400, seed=sd)
        # the single-member run over every scalar type and form is small and basic: always kept
        vs.add_run(inner, res, pin=(str(c.get("MaxMembers")) == "1" and sim is None and "ScalarsAll" in str(c.get("Scalars"))))


def generate_layouts(tier):
    """Schemas only (MaxLen = 0: every array empty): many more and larger
    schemas per second - for the checks that look at layout, not at values."""
    vs = VectorSet()
    sd = seed()
    if tier == "quick":
        runs = [("InnerSmall", consts("InnerSmall", 2, max_len=0), None),
                ("InnerDef", consts("InnerDef", 1, max_len=0), None),
                ("InnerDef", consts("InnerDef", 2, forms="FormsPlainOpt", max_len=0), None),
                ("InnerDef", consts("InnerDef", 3, max_types=1, max_len=0, widths="all"), 500)]
    else:
        runs = [("InnerDef", consts("InnerDef", 2, max_len=0), None),
                ("InnerSmall", consts("InnerSmall", 3, max_len=0, widths="u18"), None),
                ("InnerDef", consts("InnerDef", 4, max_types=2, max_len=0, widths="all"), 6000)]
    _run_parallel(vs, runs, sd)
    return vs


def group_vectors(vs):
    """-> list of groups {inner, env(defs constructed), vectors}"""
    groups = {}
    for v in vs.vectors:
        key = v["inner"] + json.dumps(v["env"], sort_keys=True)
        g = groups.get(key)
        if g is None:
            g = groups[key] = {"inner": v["inner"], "cons": v["env"], "vectors": [], "lay": v.get("lay")}
        g["vectors"].append(v)
    out = list(groups.values())
    for gid, g in enumerate(out):
        g["gid"] = g["vectors"][0].get("pin_gid") or (("R%d" % gid) if g["inner"] == "given" else gid)
        g["pinned"] = g["inner"] == "given" or any(v.get("pin") for v in g["vectors"])
    return out


def make_env(inner_defs, group):
    ninner = len(inner_defs)
    defs = inner_defs + group["cons"]
    names = ["T%d" % (i + 1) for i in range(ninner)] + \
            ["X%s_%d" % (group["gid"], i + 1) for i in range(len(group["cons"]))]
    return S.Env(defs, names=names)


def batches(groups, nbatch):
    nbatch = max(1, min(nbatch, len(groups)))
    bs = [[] for _ in range(nbatch)]
    # balance by number of vectors
    for g in sorted(groups, key=lambda g: -len(g["vectors"])):
        min(bs, key=lambda b: sum(len(x["vectors"]) for x in b)).append(g)
    return [b for b in bs if b]


def _guarded(worker, inner_defs, groups, extra):
    """Runs in the worker process: exceptions escaping the harness code are
    machinery errors, never verdicts."""
    import traceback
    try:
        return worker(inner_defs, groups, extra)
    except BaseException:  # noqa
        return {"harness_error": traceback.format_exc()[-3000:]}


def run_batches(worker, groups, vs, extra, nbatch=None, timeout=900):
    """Dispatch groups (by inner environment) to worker processes.
    worker(inner_defs, groups, extra) -> result dict."""
    results = []
    by_inner = {}
    for g in groups:
        by_inner.setdefault(g["inner"], []).append(g)
    with ProcessPoolExecutor(max_workers=NCPU) as ex:
        futs = {}
        for inner, gs in by_inner.items():
            for b in batches(gs, nbatch or NCPU):
                futs[ex.submit(_guarded, worker, vs.inner[inner], b, extra)] = b
        for fut in as_completed(futs):
            try:
                r = fut.result(timeout=timeout)
                if "harness_error" in r:
                    raise MachineryError("worker failed inside the harness:\n" + r["harness_error"])
                results.append(r)
            except MachineryError:
                raise
            except Exception as e:  # worker crashed or timed out
                results.append({"crash": "%s: %s" % (type(e).__name__, e),
                                "groups": [g["gid"] for g in futs[fut]]})
    return results


# ---------------------------------------------------------------------------
# fault vectors (decoder machine + fault model, spec/WireDec.tla)
# ---------------------------------------------------------------------------
DEC_INVARIANTS = ["DecoderInBounds", "RoundTrip", "AcceptConsumesAll", "TruncationDetected", "FDump"]


def dconsts(inner, max_members, faults, orders, **kw):
    c = consts(inner, max_members, **kw)
    c["FaultKinds"] = "{%s}" % ", ".join('"%s"' % f for f in faults)
    c["DecOrders"] = "{%s}" % ", ".join('"%s"' % o for o in orders)
    return c


ALL_FAULTS = ("none", "trunc", "ext", "ctl")


def generate_faults(tier):
    vs = VectorSet()
    sd = seed()
    if tier == "quick":
        runs = [("InnerSmall", dconsts("InnerSmall", 1, ALL_FAULTS, "L", max_len=2), None),
                ("InnerDef", dconsts("InnerDef", 3, ALL_FAULTS, "LB", max_types=2, max_len=2), 60)]
    else:
        runs = [("InnerSmall", dconsts("InnerSmall", 2, ALL_FAULTS, "L", max_len=1), None),
                ("InnerDef", dconsts("InnerDef", 1, ALL_FAULTS, "LB", max_len=2), None),
                ("InnerDef", dconsts("InnerDef", 4, ALL_FAULTS, "LB", max_types=3, max_len=3), 600)]
    for inner, c, sim in runs:
        res = run_tlc("WireDecMC", c, invariants=DEC_INVARIANTS, prefix=("FVEC", "INNER"), spec="DSpec",
                      simulate=sim, depth=600, seed=sd)
        for tag, body in res.lines:
            if tag == "INNER":
                vs.inner[inner] = json.loads(body)
            else:
                v = json.loads(body)
                v["inner"] = inner
                v["pin"] = sim is None and tier == "quick"   # the exhaustive part is never sampled away
                vs.vectors.append(v)
        vs.stats.append(res.stats)
    return vs


def vacuity_guard():
    """The round-trip theorem WITHOUT the documented greedy-tail restriction
    must fail in the specification; otherwise the restriction (and with it the
    C02 check) is vacuous."""
    c = dconsts("InnerSmall", 2, ("none",), "L", max_len=1, widths="u18")
    res = run_tlc("WireDecMC", c, invariants=["RoundTripUnrestricted"], spec="DSpec", expect_violation=True)
    if res.ok or "RoundTripUnrestricted is violated" not in (res.error or ""):
        raise MachineryError("vacuity guard: TLC did not rediscover the documented greedy-tail exception: %s"
                             % res.error)
    return res.stats


# ---------------------------------------------------------------------------
# given schemas (spec/WireGiven.tla): generation and trace validation
# ---------------------------------------------------------------------------
GIVEN_CONSTS = {"Inner": "<- NoInner", "MaxLen": 2, "MaxMembers": 0, "MaxTypes": 0, "Scalars": "{}", "Forms": "{}",
                "PayloadHigh": "FALSE", "FixN": 0, "LimN": 0}


def _write_given(items):
    d = scratch_dir("given")
    path = os.path.join(d, "given.json")
    with open(path, "w") as f:
        json.dump(items, f)
    return path


def generate_given(envs, max_len=2):
    """All structural values (lengths <= max_len) of each given environment.
    Returns (groups, stats): one group per environment, vectors as in VEC."""
    items = [{"env": e, "walk": [], "obsL": [], "obsB": []} for e in envs]
    path = _write_given(items)
    c = dict(GIVEN_CONSTS, MaxLen=max_len)
    res = run_tlc("WireGiven", c, invariants=["AlignedEmit", "ZeroFillForward", "Mirror", "FixedLength", "GDump"],
                  prefix=("GVEC", "ILLEGAL"), spec="GSpec", env={"GIVEN_FILE": path})
    groups = {}
    for tag, body in res.lines:
        if tag == "ILLEGAL":
            raise MachineryError("given environment %s is not legal per the specification" % body)
        v = json.loads(body)
        g = groups.setdefault(v["gid"], {"gid": "given%d" % v["gid"], "inner": "given", "cons": envs[v["gid"] - 1],
                                         "vectors": [], "lay": v["lay"]})
        v["inner"] = "given"
        v["env"] = envs[v["gid"] - 1]
        g["vectors"].append(v)
    return [groups[k] for k in sorted(groups)], res.stats


def add_reproducers(vs, pid):
    """Append the committed reproducers of this property's known findings
    (findings/<key>.json: {"env": [...]}) to the vector set, so that every run
    exercises them: KNOWN-FINDING is printed while they still fail."""
    from .common import Known, VERIF
    envs = []
    for key in Known().keys_for(pid):
        path = os.path.join(VERIF, "findings", key + ".json")
        if os.path.exists(path):
            with open(path) as f:
                d = json.load(f)
            envs.append(d["env"])
            envs += d.get("envs", [])
    if not envs:
        return
    groups, stats = generate_given(envs)
    vs.inner["given"] = []
    for g in groups:
        vs.vectors += g["vectors"]
    vs.stats.append(stats)
    vs.reproducer_groups = [g["gid"] for g in groups]


TLC_BATCH = 6000      # items per TLC start (the JSON file and the initial-state set stay small)


def _merge_stats(a, b):
    if a is None:
        return dict(b)
    for k in ("generated", "distinct"):
        a[k] = a.get(k, 0) + b.get(k, 0)
    a["depth"] = max(a.get("depth", 0), b.get("depth", 0))
    a["batches"] = a.get("batches", 1) + 1
    return a


def validate_traces(items):
    """items: [{env, walk, obsL, obsB}].  Returns (verdicts, illegal, stats):
    verdicts[i] = TV record or None when the walk is not a behaviour of the
    specification at all (no finished behaviour)."""
    if len(items) > TLC_BATCH:
        verdicts, illegal, stats = [], [], None
        for lo in range(0, len(items), TLC_BATCH):
            v, ill, st = validate_traces(items[lo:lo + TLC_BATCH])
            for x in v:
                if x is not None:
                    x["gid"] += lo
            verdicts += v
            illegal += [i + lo for i in ill]
            stats = _merge_stats(stats, st)
        return verdicts, illegal, stats
    path = _write_given(items)
    res = run_tlc("WireGiven", GIVEN_CONSTS, invariants=["AlignedEmit", "ZeroFillForward", "Mirror", "TDump"],
                  prefix=("TV", "ILLEGAL"), spec="TSpec", env={"GIVEN_FILE": path})
    verdicts = [None] * len(items)
    illegal = []
    for tag, body in res.lines:
        if tag == "ILLEGAL":
            illegal.append(int(body) - 1)
        else:
            v = json.loads(body)
            verdicts[v["gid"] - 1] = v
    return verdicts, illegal, res.stats


def render_text(items):
    """items: [{env, names, walk}] -> list of text (str) per item, via spec/Print.tla."""
    if len(items) > TLC_BATCH:
        out, stats = [], None
        for lo in range(0, len(items), TLC_BATCH):
            o, st = render_text(items[lo:lo + TLC_BATCH])
            out += o
            stats = _merge_stats(stats, st)
        return out, stats
    path = _write_given(items)
    res = run_tlc("Print", {}, invariants=["PDump"], prefix=("PVEC",), spec="PSpec", env={"GIVEN_FILE": path})
    out = [None] * len(items)
    for tag, body in res.lines:
        v = json.loads(body)
        out[v["gid"] - 1] = "".join(l + "\n" for l in v["lines"])
    return out, res.stats


PRINT_INTS = [0, 7, 10, 255, 256, 4660, 65535, 1000000, 2147483647]
PRINT_BYTES = [97, 0, 9, 34, 39, 10, 13, 92, 39, 32, 126, 127, 255, 39, 34, 65, 66, 39, 98]


def repayload_for_print(env, t, walk, salt=0):
    """Replace scalar payloads by values the Print specification can render
    in decimal (TLC integers are 32 bit) and bytes of every escape class."""
    value = S.walk_to_value(env, t, walk)
    counter = [salt]

    def scal(b):
        counter[0] += 1
        q = counter[0]
        if b["k"] == "byte":
            return (PRINT_BYTES[q % len(PRINT_BYTES)],)
        w = b["w"]
        if b["s"] and q % 3 == 0:
            return tuple([255] * w) if (w > 2 or q % 2) else tuple((256 ** w - 3).to_bytes(w, "little"))
        cands = [x for x in PRINT_INTS if x < 256 ** w // (2 if b["s"] else 1)]
        return tuple(cands[q % len(cands)].to_bytes(w, "little"))

    def tr(t, x):
        b = env.base(t)
        if b["k"] in ("int", "flt", "byte"):
            return scal(b)
        d = env.d(b["i"])
        if d["k"] == "enum":
            return x
        if d["k"] == "union":
            return ("union", x[1], tr(d["arms"][x[1] - 1]["t"], x[2]))
        out = []
        for j, (m, y) in enumerate(zip(d["ms"], x[1]), 1):
            if m["f"] == "plain":
                out.append(y if env.is_sizer(d["ms"], j) else tr(m["t"], y))
            elif m["f"] == "opt":
                out.append(None if y is None else tr(m["t"], y))
            else:
                out.append([tr(m["t"], e) for e in y])
        return ("struct", out)

    return S.value_to_walk(env, t, tr(t, value))


def layout_of(envs):
    """spec/Layout.tla + Schema.tla evaluated by TLC on given environments.
    Returns (list of {"legal": bool, "lay": [...]}, stats)."""
    path = _write_given([{"env": e} for e in envs])
    res = run_tlc("LayoutGiven", {}, spec="LSpec", prefix=("LAY",), env={"GIVEN_FILE": path}, workers=1)
    out = [None] * len(envs)
    for tag, body in res.lines:
        v = json.loads(body)
        out[v["gid"] - 1] = v
    return out, res.stats


def decide_decodes(items):
    """items: [{env, inp, ord}] -> (verdicts, stats): the reference decoder's
    (spec/WireDecGiven.tla) verdict record per item: verdict, reason, dwalk, pos."""
    if len(items) > TLC_BATCH:
        verdicts, stats = [], None
        for lo in range(0, len(items), TLC_BATCH):
            v, st = decide_decodes(items[lo:lo + TLC_BATCH])
            verdicts += v
            stats = _merge_stats(stats, st)
        return verdicts, stats
    path = _write_given([{"env": it["env"], "inp": it["inp"], "ord": it["ord"]} for it in items])
    c = dict(GIVEN_CONSTS, FaultKinds="{}", DecOrders="{}")
    res = run_tlc("WireDecGiven", c, invariants=["DecoderInBounds", "AcceptConsumesAll", "DGDump"],
                  prefix=("DV", "ILLEGAL"), spec="DGSpec", env={"GIVEN_FILE": path})
    verdicts = [None] * len(items)
    for tag, body in res.lines:
        if tag == "ILLEGAL":
            raise MachineryError("given environment %s is not legal per the specification" % body)
        v = json.loads(body)
        verdicts[v["gid"] - 1] = v
    missing = [i for i, v in enumerate(verdicts) if v is None]
    if missing:
        raise MachineryError("reference decoder gave no verdict for %d inputs (first: item %d)" % (len(missing), missing[0]))
    return verdicts, res.stats
